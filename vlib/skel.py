"""T2 translator: clang JSON AST of selected functions -> terms of the skeleton language of
coq/theories/Lib/Skel.v.  Anything not recognised becomes XOther/SOther, which no shape predicate accepts."""
import json, os, subprocess
from .core import CheckError


def clang_ast(run, relpath, extra_flags=()):
    cmd = ["clang", "-std=c99", "-fsyntax-only", "-w", "-DHAVE_CONFIG_H", "-DA2O_SNOOPY_VERIF", "-I" + run.tree, "-I" + os.path.join(run.tree, "src")] \
        + run.inih_defs() + list(extra_flags) + ["-Xclang", "-ast-dump=json", os.path.join(run.tree, relpath)]
    p = subprocess.run(cmd, stdout=subprocess.PIPE, stderr=subprocess.PIPE, text=True)
    if p.returncode != 0:
        raise CheckError("clang failed on %s: %s" % (relpath, p.stderr[-2000:]))
    return json.loads(p.stdout)


def functions(tu, mainfile_only=True):
    """name -> FunctionDecl node (definitions only)"""
    out = {}
    for n in tu.get("inner", []):
        if n.get("kind") == "FunctionDecl" and any(c.get("kind") == "CompoundStmt" for c in n.get("inner", [])):
            out[n["name"]] = n
    return out


def q(s):
    return '"' + s.replace('"', '""') + '"'


def strip(n):
    """skip implicit casts / parens"""
    while n.get("kind") in ("ImplicitCastExpr", "ParenExpr", "ConstantExpr") and n.get("inner"):
        n = n["inner"][0]
    return n


def _has_call(n):
    if not isinstance(n, dict):
        return False
    if n.get("kind") == "CallExpr":
        return True
    return any(_has_call(c) for c in n.get("inner", []))


def _returns(n, acc):
    if isinstance(n, dict):
        if n.get("kind") == "ReturnStmt":
            acc.append(n)
        for c in n.get("inner", []):
            _returns(c, acc)
    return acc


class Fn:
    """statics: name -> FunctionDecl of the file-local `static` functions of the translation unit.  When given, a call of such a helper is
    INLINED (parameters replaced by the caller's argument expressions) wherever that is a plain syntactic operation: the helper's only
    `return` is its last statement and the arguments contain no call.  "Extract a static helper" / "inline a helper" refactorings then
    leave the skeleton unchanged.  subst: parameter name -> already translated argument expression (inside an inlined helper)."""
    def __init__(self, node, statics=None, subst=None, depth=0):
        self.node = node
        self.params = [c["name"] for c in node.get("inner", []) if c.get("kind") == "ParmVarDecl" and "name" in c]
        self.body = [c for c in node.get("inner", []) if c.get("kind") == "CompoundStmt"][0]
        self.statics = statics or {}
        self.subst = subst or {}
        self.depth = depth

    def _inlinable(self, call):
        """-> (helper Fn bound to the arguments, leading statements, returned expression node or None) or None"""
        if not self.statics or self.depth >= 3 or call.get("kind") != "CallExpr":
            return None
        inner = call.get("inner", [])
        callee = strip(inner[0])
        if callee.get("kind") != "DeclRefExpr" or callee.get("referencedDecl", {}).get("kind") != "FunctionDecl":
            return None
        name = callee["referencedDecl"].get("name")
        node = self.statics.get(name)
        if node is None or node is self.node or any(_has_call(a) for a in inner[1:]):
            return None
        h = Fn(node, self.statics, None, self.depth + 1)
        if len(h.params) != len(inner) - 1:
            return None
        stmts = list(h.body.get("inner", []))
        rets = _returns(h.body, [])
        ret = None
        if rets:
            if len(rets) != 1 or not stmts or stmts[-1] is not rets[0]:
                return None
            ret = (rets[0].get("inner") or [None])[0]
            stmts = stmts[:-1]
        h.subst = dict(zip(h.params, [self.expr(a) for a in inner[1:]]))
        h.params = []
        return h, stmts, ret

    def expr(self, n):
        n = strip(n)
        k = n.get("kind")
        if k == "DeclRefExpr":
            rd = n.get("referencedDecl", {})
            name = rd.get("name", "?")
            if rd.get("kind") == "ParmVarDecl" and name in self.subst:
                return self.subst[name]
            if rd.get("kind") == "ParmVarDecl" and name in self.params:
                return "(XParam %d)" % self.params.index(name)
            if rd.get("kind") == "FunctionDecl":
                return "(XFun %s)" % q(name)
            return "(XVar %s)" % q(name)
        if k == "StringLiteral":
            v = n.get("value", '""')
            try:
                s = json.loads(v)
            except Exception:
                s = v.strip('"')
            if all(32 <= ord(ch) < 127 for ch in s):
                return "(XStr %s)" % q(s)
            return "(XOther %s)" % q("string literal with non-printable bytes")
        if k == "IntegerLiteral":
            return "(XInt (%s)%%Z)" % n.get("value", "0")
        if k == "CharacterLiteral":
            return "(XInt (%s)%%Z)" % n.get("value", 0)
        if k == "CStyleCastExpr":
            return "(XCast %s)" % self.expr(n["inner"][0])
        if k == "CallExpr":
            inl = self._inlinable(n)
            if inl and not inl[1] and inl[2] is not None:        # helper = { return e; }
                return inl[0].expr(inl[2])
            inner = n.get("inner", [])
            callee = strip(inner[0])
            args = "[" + "; ".join(self.expr(a) for a in inner[1:]) + "]"
            if callee.get("kind") == "DeclRefExpr" and callee.get("referencedDecl", {}).get("kind") == "FunctionDecl":
                return "(XCall %s %s)" % (q(callee["referencedDecl"]["name"]), args)
            # `(*f)(x)` and `f(x)` are the same call in C: the callee of a call through a pointer is printed without the redundant dereference
            while callee.get("kind") == "UnaryOperator" and callee.get("opcode") == "*" and callee.get("inner"):
                callee = strip(callee["inner"][0])
            return "(XCallPtr %s %s)" % (self.expr(callee), args)
        if k == "UnaryOperator":
            op = n.get("opcode")
            sub = self.expr(n["inner"][0])
            if op == "*":
                return "(XDeref %s)" % sub
            if op == "&":
                return "(XAddr %s)" % sub
            return "(XOp %s [%s])" % (q(op), sub)
        if k == "BinaryOperator" and n.get("opcode") != "=":
            a, b = self.expr(n["inner"][0]), self.expr(n["inner"][1])
            # canonical operand order of == and != (the project's own style): a constant operand comes first
            if CANON_CMP and n.get("opcode") in ("==", "!=") and _is_const_term(b) and not _is_const_term(a):
                a, b = b, a
            return "(XOp %s [%s; %s])" % (q(n.get("opcode")), a, b)
        if k == "MemberExpr":
            return "(XMember %s %s)" % (self.expr(n["inner"][0]), q(n.get("name", "?")))
        if k == "ArraySubscriptExpr":
            return "(XIndex %s %s)" % (self.expr(n["inner"][0]), self.expr(n["inner"][1]))
        if k == "UnaryExprOrTypeTraitExpr":
            return "(XOp %s [])" % q(n.get("name", "sizeof"))
        if k == "InitListExpr":
            return "(XOp %s [%s])" % (q("initlist"), "; ".join(self.expr(c) for c in n.get("inner", [])))
        if k == "ConditionalOperator":
            return "(XOp %s [%s])" % (q("?:"), "; ".join(self.expr(c) for c in n.get("inner", [])))
        return "(XOther %s)" % q(k or "?")

    def stmts(self, n):
        if n is None:
            return "[]"
        if n.get("kind") == "CompoundStmt":
            items = []
            for c in n.get("inner", []):
                items += self.stmt_multi(c)
            return "[" + ";\n ".join(items) + "]"
        return "[" + "; ".join(self.stmt_multi(n)) + "]"

    def stmt_multi(self, n):
        """like stmt, but an inlined helper call is spliced into the enclosing statement list (no SSeq wrapper)"""
        if self.statics:
            k = n.get("kind")
            inl, tail = None, None
            if k == "CallExpr":
                inl = self._inlinable(n)
            elif k == "BinaryOperator" and n.get("opcode") == "=":
                inl = self._inlinable(strip(n["inner"][1]))
                if inl and inl[2] is not None and inl[1]:
                    lhs = self.expr(n["inner"][0])
                    tail = lambda e: "(SAssign %s %s)" % (lhs, e)
                else:
                    inl = None
            elif k == "ReturnStmt" and n.get("inner"):
                inl = self._inlinable(strip(n["inner"][0]))
                if inl and inl[2] is not None and inl[1]:
                    tail = lambda e: "(SReturn (Some %s))" % e
                else:
                    inl = None
            if inl:
                h, stmts, ret = inl
                out = []
                for c in stmts:
                    out += h.stmt_multi(c)
                if ret is not None and tail:
                    out.append(tail(h.expr(ret)))
                return out
        return [self.stmt(n)]

    def _inline_seq(self, inl, tail):
        h, stmts, ret = inl
        body = [h.stmt(c) for c in stmts]
        return "(SSeq [%s])" % "; ".join(body + ([tail(h.expr(ret))] if ret is not None and tail else []))

    def stmt(self, n):
        k = n.get("kind")
        if self.statics:
            if k == "CallExpr":
                inl = self._inlinable(n)
                if inl:
                    return self._inline_seq(inl, None)
            if k == "BinaryOperator" and n.get("opcode") == "=":
                inl = self._inlinable(strip(n["inner"][1]))
                if inl and inl[2] is not None and inl[1]:
                    lhs = self.expr(n["inner"][0])
                    return self._inline_seq(inl, lambda e: "(SAssign %s %s)" % (lhs, e))
            if k == "ReturnStmt" and n.get("inner"):
                inl = self._inlinable(strip(n["inner"][0]))
                if inl and inl[2] is not None and inl[1]:
                    return self._inline_seq(inl, lambda e: "(SReturn (Some %s))" % e)
        if k == "DeclStmt":
            out = []
            for d in n.get("inner", []):
                if d.get("kind") != "VarDecl":
                    out.append("(SOther %s)" % q("decl " + str(d.get("kind"))))
                    continue
                init = [c for c in d.get("inner", []) if c.get("kind", "").endswith("Expr") or c.get("kind", "").endswith("Literal") or c.get("kind", "").endswith("Operator")]
                out.append("(SDecl %s %s %s)" % (q(d["name"]), "true" if d.get("storageClass") == "static" else "false",
                                                 "(Some %s)" % self.expr(init[0]) if init else "None"))
            return "(SSeq [%s])" % "; ".join(out) if len(out) != 1 else out[0]
        if k == "BinaryOperator" and n.get("opcode") == "=":
            return "(SAssign %s %s)" % (self.expr(n["inner"][0]), self.expr(n["inner"][1]))
        if k == "CompoundAssignOperator":
            return "(SAssign %s (XOp %s [%s; %s]))" % (self.expr(n["inner"][0]), q(n.get("opcode")), self.expr(n["inner"][0]), self.expr(n["inner"][1]))
        if k == "CallExpr" or k in ("ImplicitCastExpr", "ParenExpr", "CStyleCastExpr", "UnaryOperator"):
            return "(SExpr %s)" % self.expr(n)
        if k == "ReturnStmt":
            inner = n.get("inner", [])
            return "(SReturn %s)" % ("(Some %s)" % self.expr(inner[0]) if inner else "None")
        if k == "IfStmt":
            inner = n.get("inner", [])
            cond = self.expr(inner[0])
            # canonical form of `if (A) { if (B) S }` (no else on either, nothing else in the block) is `if (A && B) S`
            cur = n
            while True:
                ci = cur.get("inner", [])
                if len(ci) != 2:
                    break
                t = ci[1]
                if t.get("kind") == "CompoundStmt" and len(t.get("inner", []) or []) == 1:
                    t = t["inner"][0]
                if t.get("kind") == "IfStmt" and len(t.get("inner", [])) == 2 and not t.get("hasVar") and not t.get("hasInit"):
                    cond = "(XOp %s [%s; %s])" % (q("&&"), cond, self.expr(t["inner"][0]))
                    cur = t
                    inner = t["inner"]
                else:
                    break
            th = self.stmts(inner[1]) if len(inner) > 1 else "[]"
            el = self.stmts(inner[2]) if len(inner) > 2 else "[]"
            return "(SIf %s %s %s)" % (cond, th, el)
        if k in ("WhileStmt", "DoStmt"):
            inner = n.get("inner", [])
            ci, bi = (0, 1) if k == "WhileStmt" else (1, 0)
            return "(SLoop %s %s)" % (self.expr(inner[ci]), self.stmts(inner[bi]))
        if k == "ForStmt":
            inner = n.get("inner", [])
            body = inner[-1]
            cond = inner[2] if len(inner) >= 5 and inner[2] and inner[2].get("kind") else None
            pre = []
            if inner[0] and inner[0].get("kind"):
                pre.append(self.stmt(inner[0]))
            inc = self.stmt(inner[3]) if len(inner) >= 5 and inner[3] and inner[3].get("kind") else None
            b = self.stmts(body)
            if inc:
                b = b[:-1] + ("; " if b != "[]" else "") + inc + "]"
            loop = "(SLoop %s %s)" % (self.expr(cond) if cond else '(XInt 1%Z)', b)
            return "(SSeq [%s])" % "; ".join(pre + [loop])
        if k == "CompoundStmt":
            return "(SSeq %s)" % self.stmts(n)
        if k in ("BreakStmt",):
            return "SBreak"
        if k in ("ContinueStmt",):
            return "SContinue"
        if k == "NullStmt":
            return "(SSeq [])"
        if k == "GotoStmt" or k == "LabelStmt" or k == "SwitchStmt":
            return "(SOther %s)" % q(k)
        return "(SOther %s)" % q(k or "?")


CANON_CMP = False     # set for the duration of one emit_skeletons(..., canon_cmp=True) call


def _is_const_term(t):
    """printed skeleton expression that is a compile-time constant: integer/character literal, string literal, a cast of one (NULL)"""
    t = t.strip()
    while t.startswith("(XCast ") and t.endswith(")"):
        t = t[len("(XCast "):-1].strip()
    return t.startswith("(XInt ") or t.startswith("(XStr ")


def skeleton(tu, name, inline_static=False):
    fns = functions(tu)
    if name not in fns:
        return None, None
    statics = {k: v for k, v in fns.items() if v.get("storageClass") == "static"} if inline_static else None
    f = Fn(fns[name], statics)
    return len(f.params), f.stmts(f.body)


def emit_skeletons(run, genname, items, inline_static=False, canon_cmp=False):
    """items: list of (coq_ident, relpath, function name).  Writes Gen_<genname>.v with
    Definition <ident> : fn_skel := {| sk_nparams := n; sk_body := [...] |}.  Missing function -> body [SOther "missing"]."""
    global CANON_CMP
    CANON_CMP = canon_cmp
    try:
        return _emit_skeletons(run, genname, items, inline_static)
    finally:
        CANON_CMP = False


def _emit_skeletons(run, genname, items, inline_static):
    cache = {}
    out = ["(* GENERATED from the current /repo working tree by vlib/skel.py -- do not edit *)",
           "From Coq Require Import String ZArith List.", "From Snoopy Require Import Lib.Skel.", "Import ListNotations.", "Local Open Scope string_scope.", ""]
    for ident, rel, fn in items:
        if rel not in cache:
            cache[rel] = clang_ast(run, rel)
        n, body = skeleton(cache[rel], fn, inline_static)
        if body is None:
            run.notes.append("skeleton translator: function %s not found in %s" % (fn, rel))
            n, body = 0, '[SOther "missing function"]'
        out.append("Definition %s : fn_skel := {| sk_name := %s; sk_nparams := %d; sk_body :=\n %s |}.\n" % (ident, q(fn), n, body))
    run.write_gen("Gen_%s.v" % genname, "\n".join(out))
