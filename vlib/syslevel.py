"""System-level harness: production libsnoopy.so built from the snapshot, scripted caller, recorder.
See harness/tool_caller.c and harness/librecorder.c for the script directives and the record grammar."""
import os, re, subprocess, shutil
from concurrent.futures import ThreadPoolExecutor
from .core import BUILD, CheckError, hexs, hexlist, NCPU

CALLER = os.path.join(BUILD, "harness", "tool_caller")
RECORDER = os.path.join(BUILD, "harness", "librecorder.so")


def drop_thread_safety(cfg):
    return re.sub(r"^#define SNOOPY_CONF_THREAD_SAFETY_ENABLED.*$", "/* #undef SNOOPY_CONF_THREAD_SAFETY_ENABLED */", cfg, flags=re.M)


def build_prod(run, ts=True, san=False, name=None, extra=()):
    """libsnoopy.so exactly as the production library is composed (no-entrypoint objects + execve-wrapper.c + cli.c),
    from the snapshot.  Default symbol visibility so that the harness can call the library's own preinit function."""
    name = name or ("prod-%s%s" % ("ts" if ts else "nts", "-asan" if san else ""))
    so = os.path.join(run.scratch, "lib-%s.so" % name)
    if os.path.exists(so):
        return so
    objs = run.build_objs(name, san=san, entry=True, config_edit=None if ts else drop_thread_safety, extra=extra)
    if not ts:
        objs = [o for o in objs if not o.endswith("src__tsrm.o")]
    run.link(so, [], objs, san=san, shared=True)
    return so


def asan_runtime():
    p = subprocess.run(["gcc", "-print-file-name=libasan.so"], stdout=subprocess.PIPE, text=True)
    return p.stdout.strip()


def run_script(run, lib, script_lines, tag, timeout=60, env=None, san=False, stdin=None, strace=None):
    """Runs tool_caller under LD_PRELOAD='lib recorder' with the given script. Returns parsed records."""
    d = os.path.join(run.scratch, "sys-" + tag)
    os.makedirs(d, exist_ok=True)
    script = os.path.join(d, "script.txt")
    rec = os.path.join(d, "rec.txt")
    ini = os.path.join(d, "snoopy.ini")
    open(script, "w").write("".join(l + "\n" for l in script_lines))
    if os.path.exists(rec):
        os.unlink(rec)
    e = {"PATH": "/usr/bin:/bin", "HOME": "/root"}
    pre = ([asan_runtime()] if san else []) + [lib, RECORDER]
    e["LD_PRELOAD"] = " ".join(pre)
    if san:
        e["ASAN_OPTIONS"] = "detect_leaks=0:exitcode=77:abort_on_error=0:verify_asan_link_order=0"
        e["UBSAN_OPTIONS"] = "halt_on_error=1:exitcode=78"
    if env:
        e.update(env)
    cmd = [CALLER, script, rec, ini]
    if strace:
        envargs = []
        for k, v in e.items():
            envargs += ["-E", "%s=%s" % (k, v)]
        cmd = ["strace"] + strace + envargs + cmd
        e = {"PATH": "/usr/bin:/bin"}
    try:
        p = subprocess.run(cmd, env=e, cwd=d, timeout=timeout, stdin=stdin or subprocess.DEVNULL,
                           stdout=subprocess.PIPE, stderr=subprocess.PIPE)
        status = p.returncode
        err = p.stderr.decode(errors="replace")
    except subprocess.TimeoutExpired as ex:
        status = "timeout"
        err = (ex.stderr or b"").decode(errors="replace")
    recs = parse_rec(rec) if os.path.exists(rec) else []
    return {"status": status, "stderr": err, "records": recs, "dir": d, "ini": ini}


def parse_rec(path):
    out = []
    for line in open(path, errors="replace"):
        f = line.rstrip("\n").split("\t")
        if f and f[0]:
            out.append(f)
    return out


def per_call(records):
    """Group records by call index: {idx: {"real": [...], "ret": f, "sinks": {phase: [(name, hex)]}, "state": {phase: f}, "deep": f}}"""
    calls = {}

    def c(i):
        return calls.setdefault(int(i), {"real": [], "ret": None, "sinks": {}, "state": {}, "deep": None})
    for f in records:
        if f[0] == "real":
            c(f[1])["real"].append(f)
        elif f[0] == "ret":
            c(f[1])["ret"] = f
        elif f[0] == "sink":
            c(f[2])["sinks"].setdefault(f[1], []).append((f[3], f[4] if len(f) > 4 else "-"))
        elif f[0] == "state":
            c(f[2])["state"][f[1]] = f
        elif f[0] == "deep":
            c(f[1])["deep"] = f
    return calls


def run_many(fn, items, workers=None):
    with ThreadPoolExecutor(workers or NCPU) as ex:
        return list(ex.map(fn, items))


def call_line(api, path, argv, envp, mode=0, ret=-1, err=2):
    return "\t".join(["call", api, hexs(path), hexlist(argv), hexlist(envp), str(mode), str(ret), str(err)])
