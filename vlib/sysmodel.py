"""Whole-run model (System/Compose.v): per-run extraction containing the constants regenerated from the snapshot, and the
whole-run correspondence stream: generated snoopy.ini files x exec calls through the production wrapper, every sink drained at
exec entry, compared with `log_exec` (Config.load -> Filter.check_chain -> Expand.log_message/Errors -> Output.action_el)."""
import os, re, shutil, subprocess
from .core import VERIF, THEORIES, CheckError, sh, hexs, hexlist, coq_bytes
from .translate import tr_expand, cpp_value
from .tr_output import tr_output, tr_errors
from .tr_config import tr_config
from .tr_filter import tr_filter
from .tr_ds import tr_ds
from .syslevel import build_prod, run_script, per_call, call_line, run_many

SINKS = ["sink\tfile\tout\t@D@/out.log", "sink\tfile\tout2\t@D@/out-T.log", "sink\tpipe\tso\t1", "sink\tpipe\tse\t2",
         "sink\tdgram\tsock\t@D@/s.sock", "sink\tdevlog\tdevlog\t@D@/devlog.sock", "sink\ttty\ttty"]


def translate_all(run, have=()):
    """run every translator the composed model needs (skipping those the caller already ran); writes Gen_Sys.v"""
    c = {}
    c["expand"] = run.consts.get("expand") or tr_expand(run)
    if "output" not in run.consts:
        tr_output(run)
    if "errors" not in run.consts:
        tr_errors(run)
    if not os.path.exists(os.path.join(run.gen, "Gen_Config.v")):
        tr_config(run)
    if not os.path.exists(os.path.join(run.gen, "Gen_Filter.v")):
        tr_filter(run)
    if not os.path.exists(os.path.join(run.gen, "Gen_Ds.v")):
        tr_ds(run)
    ex = run.consts["expand"]
    filt = cpp_value(run, "SNOOPY_FILTERING_ENABLED", includes=("snoopy.h",))
    run.write_gen("Gen_Sys.v", "(* GENERATED from the current /repo working tree by vlib/sysmodel.py -- do not edit *)\n"
                  "From Snoopy Require Import Lib.CStr Expand.Exec.\n"
                  "Definition dsc : ds_consts := {| env_undefined := %s; failure_text := %s |}.\n"
                  "Definition filtering_compiled : bool := %s.\n" % (
                      coq_bytes(bytes.fromhex(ex["env_undefined"])), coq_bytes(bytes.fromhex(ex["failure_text"])), "true" if filt == 1 else "false"))
    return c


def build_model(run):
    """compile Gen_*.v (if coq_props has not done so) and the per-run extraction; returns the driver executable"""
    d = os.path.join(run.scratch, "sysmodel")
    os.makedirs(d, exist_ok=True)
    gdir = run.gen_models
    for g in ("Gen_Config", "Gen_Filter", "Gen_Expand", "Gen_Cmdline", "Gen_Output", "Gen_Errors", "Gen_Sys", "Gen_Ds"):
        if not os.path.exists(os.path.join(gdir, g + ".v")):
            raise CheckError("%s.v is not available for the composed model" % g)
        if not os.path.exists(os.path.join(gdir, g + ".vo")):
            p = sh(["timeout", "300", "coqc", "-q", "-Q", THEORIES, "Snoopy", "-Q", gdir, "Gen", os.path.join(gdir, g + ".v")], check=False)
            if p.returncode != 0:
                raise CheckError("%s.v does not compile:\n%s" % (g, p.stdout[-2000:]))
    shutil.copy(os.path.join(VERIF, "coq", "extract", "run", "Extract_system_run.v"), os.path.join(d, "Extract_system_run.v"))
    sh(["timeout", "600", "coqc", "-q", "-Q", THEORIES, "Snoopy", "-Q", gdir, "Gen", "Extract_system_run.v"], cwd=d)
    with open(os.path.join(d, "main.ml"), "w") as f:
        f.write("open Model_system\n" + open(os.path.join(VERIF, "ocaml", "common.ml")).read() + open(os.path.join(VERIF, "ocaml", "drv_system.ml")).read())
    exe = os.path.join(d, "drv_system")
    sh(["ocamlfind", "ocamlopt", "-w", "-a", "-O3", "-package", "str,unix", "-linkpkg", "model_system.mli", "model_system.ml", "main.ml", "-o", exe], cwd=d, timeout=900)
    return exe


def run_model(exe, lines):
    p = subprocess.run(["bash", "-c", "ulimit -s unlimited 2>/dev/null || ulimit -s 1000000; exec \"$0\"", exe],
                       input="".join(l + "\n" for l in lines), stdout=subprocess.PIPE, stderr=subprocess.PIPE, text=True, timeout=1800)
    if p.returncode != 0:
        raise CheckError("system model driver failed: " + p.stderr[-2000:])
    out = p.stdout.split("\n")[:-1]
    if len(out) != len(lines) or any(o.startswith("driver-error") for o in out):
        raise CheckError("system model driver: %d answers for %d cases (%s)" % (len(out), len(lines), [o for o in out if o.startswith("driver-error")][:1]))
    return out


# ------------------------------------------------------------------------------------ generator
FACS = ["AUTH", "AUTHPRIV", "CRON", "DAEMON", "FTP", "KERN", "LOCAL0", "LOCAL3", "LOCAL7", "LPR", "MAIL", "NEWS", "SYSLOG", "USER", "UUCP"]
LVLS = ["EMERG", "ALERT", "CRIT", "ERR", "WARNING", "NOTICE", "INFO", "DEBUG"]


def rb(rng, n, alpha=b"abc xyz-_/.=%{}:;"):
    return bytes(rng.choice(alpha) for _ in range(n))


def gen_ini(rng):
    """a configuration file as a list of lines; every setting the [snoopy] section knows, valid and invalid values, duplicates,
    comments, other sections, quoting; outputs aimed at the sinks the harness owns"""
    L = []
    if rng.random() < 0.15:
        L += [b"; comment", b"[other]", b"output = file:/nonexistent/x", b"message_format = no"]
    L.append(rng.choice([b"[snoopy]", b"[snoopy]", b"[snoopy]  ", b"[snoopy] ; c"]))

    def q(v):
        return rng.choice([v, b'"' + v + b'"', b'"' + v + b'"', b"'" + v + b"'"]) if b'"' not in v and b"'" not in v else v

    def kv(k, v):
        sep = rng.choice([b" = ", b"=", b" : ", b"\t=\t"]) if b":" not in v[:0] else b" = "
        return k + sep + v
    n = rng.choice([1, 3, 5, 8])
    for _ in range(n):
        r = rng.random()
        if r < 0.22:
            o = rng.choice([b"file:@D@/out.log", b"file:@D@/out-%{snoopy_literal:T}.log", b"file:@D@/out.log", b"devtty", b"devnull", b"stdout", b"stderr",
                            b"socket:@D@/s.sock", b"devlog", b"noop", b"file", b"nosuchoutput", b"nosuch:arg", b":x", b"file:", b"devlog:ignored", b"stdout:arg:with:colons"])
            L.append(kv(b"output", q(o)))
        elif r < 0.40:
            fmt = rng.choice([b"%{cmdline}", b"%{filename}", b"[%{env:A}] %{cmdline}", b"pre-%{cmdline}-post", b"%{snoopy_literal:x}%{nosuch}tail", b"%{failure}:%{noop}:%{cmdline",
                              b"lit only", b"", b"%{env:EMPTY}", b"%{snoopy_literal:" + b"L" * rng.choice([10, 240, 300]) + b"}%{cmdline}|%{filename}", b"a %{env:BIG} b %{cmdline}"])
            L.append(kv(b"message_format", q(fmt)))
        elif r < 0.55:
            ch = rng.choice([b"only_uid:0", b"exclude_uid:0", b"only_root", b"only_root;exclude_uid:0", b"nosuchfilter;only_uid:0", b"only_uid:1,2,0", b"exclude_uid:5,7",
                             b"only_tty", b";;only_uid:0;;", b"only_uid:0;only_root;nosuch:arg;only_uid:00", b"", b"exclude_uid:0;only_uid:0", b"noop", b"only_uid: 0", b"only_uid:4294967296"])
            L.append(kv(b"filter_chain", q(ch)))
        elif r < 0.65:
            L.append(kv(rng.choice([b"log_message_max_length", b"datasource_message_max_length"]),
                        rng.choice([b"255", b"256", b"300", b"1000", b"2047", b"16383", b"1k", b"1m", b"2048m", b"0", b"1", b"abc", b"999999999999", b"16K", b" 400 "])))
        elif r < 0.75:
            v = rng.choice(FACS + ["LOG_" + rng.choice(FACS), rng.choice(FACS).lower(), "log_" + rng.choice(FACS).lower(), "NOSUCH", "A", "", "LOG_", "LOG_LOG_DAEMON"])
            L.append(kv(b"syslog_facility", v.encode()))
        elif r < 0.85:
            v = rng.choice(LVLS + ["LOG_" + rng.choice(LVLS), rng.choice(LVLS).lower(), "NOSUCH", "ER", ""])
            L.append(kv(b"syslog_level", v.encode()))
        elif r < 0.93:
            L.append(kv(b"syslog_ident", q(rng.choice([b"snoopy", b"", b"id-%{snoopy_literal:x}", b"I" * 300, b"%{filename}", b"i d[1]:", b"x%{cmdline}"]))))
        else:
            L.append(kv(b"error_logging", rng.choice([b"yes", b"no", b"y", b"n", b"true", b"false", b"1", b"0", b"Yes", b"maybe", b""])))
        if rng.random() < 0.1:
            L.append(rng.choice([b"# comment", b"; another", b"unknown_key = 1", b"", b"garbage line without separator", b"  continuation ;x"]))
    # the compiled-in default format uses process-state data sources the composed model does not evaluate (C12 covers them):
    # the last message_format assignment of the section is always one over the deterministic data sources
    if not any(l.startswith(b"message_format") for l in L[-2:]):
        L.append(b"message_format = " + rng.choice([b"%{cmdline}", b"\"%{filename}: %{cmdline}\"", b"pre-%{cmdline}-post", b"\"[%{env:A}] %{cmdline}\""]))
    if rng.random() < 0.1:
        L += [b"[tail]", b"output = stderr"]
    return L


def gen_calls(rng, n, lim):
    calls = []
    for k in range(n):
        sz = rng.choice([0, 1, 2, 17, 254, 255, 256, 300, 1000, lim - 1, lim, lim + 1, 3000])
        sz = min(sz, 1400)      # the pty and the datagram queues are drained only at exec entry
        argv = None if rng.random() < 0.06 else ([rb(rng, sz, b"abcdefg -=")] + [rb(rng, rng.choice([0, 1, 5]), b"xyz") for _ in range(rng.choice([0, 0, 1, 3]))] if sz else [])
        path = b"" if (not sz and rng.random() < 0.5) else rb(rng, rng.choice([1, 9, 30]), b"/binusr")
        calls.append((rng.choice(["execve", "execv"]), path, argv))
    return calls


def whole_run_stream(run, lib, exe, nproc, ncalls, violation, tag="sys", rewrite=False, sigprefix="sys"):
    """returns (number of calls compared, set of distinct classes).  `violation(sig, kind, detail, replay)` reports.
    rewrite=True: the configuration file is rewritten (or removed) between the calls of one process; the model predicts call k
    from the file in place at call k alone (C11)."""
    rng = run.rng
    procs = []
    for i in range(nproc):
        ini = gen_ini(rng)
        calls = gen_calls(rng, ncalls, rng.choice([255, 300, 1000]))
        inis = [ini]
        for k in range(1, len(calls)):
            r = rng.random()
            inis.append((gen_ini(rng) if r < 0.55 else ([b"[snoopy]", b"message_format = %{cmdline}", b"output = file:@D@/out.log"] if r < 0.65 else inis[-1])) if rewrite else ini)
        procs.append({"ini": ini, "inis": inis, "calls": calls, "env": [b"A=va lue", b"EMPTY=", b"BIG=" + b"B" * rng.choice([10, 260, 1200]), b"PATH=/bin"]})

    def inibytes(p, d, k=0):
        it = p["inis"][k]
        return None if it is None else (b"\n".join(it) + b"\n").replace(b"@D@", d.encode())

    def job(i):
        p = procs[i]
        d = os.path.join(run.scratch, "sys-%s-%d" % (tag, i))
        ib = inibytes(p, d)
        script = list(SINKS) + ["ini\t" + (hexs(ib) if ib is not None else "~"), "env\t" + hexlist(p["env"])]
        for k, (api, path, argv) in enumerate(p["calls"]):
            if k and p["inis"][k] is not p["inis"][k - 1]:
                ibk = inibytes(p, d, k)
                script.append("ini\t" + (hexs(ibk) if ibk is not None else "~"))
            script.append(call_line(api, path, argv, [] if api == "execve" else None, 0, -1, 2))
        return (i, d, script, run_script(run, lib, script, "%s-%d" % (tag, i), timeout=120))
    outs = run_many(job, range(nproc), workers=8)
    cases, idx = [], []
    for (i, d, script, r) in outs:
        p = procs[i]
        pcs = per_call(r["records"])
        for k, (api, path, argv) in enumerate(p["calls"]):
            ib = inibytes(p, d, k)
            real = pcs.get(k, {}).get("real", [])
            pid = real[0][7] if real and len(real[0]) > 7 else "0"
            cases.append("\t".join(["sys", hexs(ib) if ib is not None else "~", hexs(path), hexlist(argv), hexlist(p["env"]), "0", "0", "0", pid]))
            idx.append((i, k))
    pred = run_model(exe, cases)
    byproc = {i: (d, script, r) for (i, d, script, r) in outs}
    ncmp, distinct = 0, set()
    for n, (i, k) in enumerate(idx):
        p = procs[i]
        d, script, r = byproc[i]
        if r["status"] != 0:
            if k == 0:
                violation(sigprefix + ":caller-died", "crash", "caller ended with status %s under a generated configuration: %s" % (r["status"], r["stderr"][-300:]),
                          {"failing_input": {"ini": (inibytes(p, "@D@") or b"(no file)").decode(errors="replace")}, "script": script, "stream": "system"})
            continue
        f = pred[n].split("\t")
        if f[0] != "ok":
            violation(sigprefix + ":model-fault", "correspondence", "the composed model faults (%s) on a generated configuration the implementation survived" % f[0],
                      {"failing_input": {"ini": (inibytes(p, "@D@") or b"(no file)").decode(errors="replace")}, "script": script, "call_index": k, "stream": "system"})
            continue
        sinkmap = {("0", (d + "/out.log").encode()): "out", ("0", (d + "/out-T.log").encode()): "out2", ("0", b"/dev/tty"): "tty", ("0", b"/dev/null"): None,
                   ("1", b"1"): "so", ("1", b"2"): "se", ("2", (d + "/s.sock").encode()): "sock", ("2", b"/dev/log"): "devlog"}
        expected, unowned = {}, False
        for j in range(int(f[1])):
            tg, name, data = f[2 + 3 * j], f[3 + 3 * j], f[4 + 3 * j]
            key = sinkmap.get((tg, bytes.fromhex(name) if name != "-" else b""), "?")
            if key == "?":
                unowned = True
            elif key is not None:
                expected.setdefault(key, []).append(data if data != "-" else "")
        if unowned:
            continue            # the configured destination is not one the harness owns (e.g. file:/nonexistent/...)
        for nm in ("out", "out2", "so", "se", "tty"):
            if nm in expected:
                expected[nm] = ["".join(expected[nm])]
        c = per_call(r["records"]).get(k, {"sinks": {}})
        got = {}
        for (nm, hx) in c["sinks"].get("at-exec", []):
            if hx not in ("-", "~"):
                got.setdefault(nm, []).append(hx)
        for nm in ("out", "out2", "so", "se", "tty"):
            if nm in got:
                got[nm] = ["".join(got[nm])]
        late = [(nm, hx[:80]) for ph in ("after", "after-flush") for (nm, hx) in c["sinks"].get(ph, []) if hx not in ("-", "~")]
        ncmp += 1
        distinct.add((tuple(sorted(expected)), tuple(len(v) for v in expected.values()), i))
        if got != expected or late:
            what = "records at exec entry differ from the composed model's prediction" if got != expected else "bytes reached a sink after the real exec returned"
            violation(sigprefix + ":records", "spec_violation", "%s (whole run: config parse -> filter -> format -> output%s); expected %s, observed %s" % (
                what, ", call %d of a history with the file rewritten between calls" % k if rewrite else "",
                {s: [len(x) // 2 for x in v] for s, v in expected.items()}, {s: [len(x) // 2 for x in v] for s, v in got.items()}),
                {"failing_input": {"ini": (inibytes(p, "@D@", k) or b"(no file)").decode(errors="replace"), "call_index": k, "history_inis": [(inibytes(p, "@D@", j) or b"(no file)").decode(errors="replace") for j in range(k + 1)] if rewrite else None},
                 "script": script, "call_index": k, "stream": "system",
                 "expected": {s: [x[:200] for x in v] for s, v in expected.items()}, "observed": {s: [x[:200] for x in v] for s, v in got.items()}, "late": late})
    return ncmp, distinct


# ------------------------------------------------------------------------------------ default format / process-state data sources
def default_format_stream(run, lib, exe, nproc, ncalls, violation, tag="sysd", sigprefix="sysd"):
    """whole runs whose message format uses the process-state data sources of C12 (the compiled-in default format when the file
    sets none, and formats over uid euid gid egid pid ppid sid tid_kernel username eusername group egroup cwd hostname tty env
    env_all filename cmdline): the composed model with DsTruth.eval_ds over Gen_Ds (System/Full.v) vs the production wrapper.
    The caller's process state is known to the harness: root ids, pid from the recorder, sid = pgid = pid (the caller called
    setsid()), stdin on /dev/null, cwd = the run directory."""
    import socket
    rng = run.rng
    host = socket.gethostname().encode()
    fmts = [None, None, b"[uid:%{uid} sid:%{sid} tty:%{tty} cwd:%{cwd} filename:%{filename}]: %{cmdline}",
            b"%{uid}/%{euid} %{gid}/%{egid} %{username}/%{eusername} %{group}/%{egroup} p=%{pid} pp=%{ppid} s=%{sid} t=%{tid_kernel}",
            b"h=%{hostname} cwd=%{cwd} tty=%{tty} A=%{env:A} e=%{env_all} f=%{filename} c=%{cmdline}", b"%{snoopy_literal:x}%{tty_uid}|%{tty_username}|%{env:NOPE}"]
    procs = []
    for i in range(nproc):
        fmt = fmts[i % len(fmts)]
        out = rng.choice([b"file:@D@/out.log", b"stdout", b"devlog", b"socket:@D@/s.sock", b"stderr"])
        ini = [b"[snoopy]", b"output = " + out] + ([b"message_format = \"" + fmt + b"\""] if fmt is not None else []) + \
              ([b"datasource_message_max_length = " + rng.choice([b"255", b"300"])] if rng.random() < 0.3 else [])
        procs.append({"ini": ini, "calls": gen_calls(rng, ncalls, 255), "env": [b"A=va lue", b"EMPTY=", b"PATH=/bin"]})

    def inibytes(p, d):
        return (b"\n".join(p["ini"]) + b"\n").replace(b"@D@", d.encode())

    def job(i):
        p = procs[i]
        d = os.path.join(run.scratch, "sys-%s-%d" % (tag, i))
        script = list(SINKS) + ["ini\t" + hexs(inibytes(p, d)), "env\t" + hexlist(p["env"])]
        for (api, path, argv) in p["calls"]:
            script.append(call_line(api, path, argv, list(p["env"]) if api == "execve" else None, 0, -1, 2))
        return (i, d, script, run_script(run, lib, script, "%s-%d" % (tag, i), timeout=120))
    outs = run_many(job, range(nproc), workers=8)
    cases, idx = [], []
    mypid = os.getpid()
    for (i, d, script, r) in outs:
        p = procs[i]
        pcs = per_call(r["records"])
        nopty = any(f[0] == "note" and len(f) > 1 and f[1] == "no-pty" for f in r["records"])
        for k, (api, path, argv) in enumerate(p["calls"]):
            real = pcs.get(k, {}).get("real", [])
            pid = real[0][7] if real and len(real[0]) > 7 else "0"
            if nopty or pid == "0":
                continue
            ids = ",".join(["0"] * 6 + [pid, str(mypid), pid, pid, "1", pid, "0", "0"])
            cases.append("\t".join(["sysfull", hexs(inibytes(p, d)), ids, hexs(d.encode()), hexs(host), "0:E:25", hexlist(p["env"]),
                                    "0:" + b"root".hex(), "0:" + b"root".hex(), hexs(path), hexlist(argv), "0"]))
            idx.append((i, k))
    pred = run_model(exe, cases) if cases else []
    byproc = {i: (d, script, r) for (i, d, script, r) in outs}
    ncmp, distinct = 0, set()
    for n, (i, k) in enumerate(idx):
        p = procs[i]
        d, script, r = byproc[i]
        if r["status"] != 0:
            continue
        f = pred[n].split("\t")
        if f[0] != "ok":
            violation(sigprefix + ":model-fault", "correspondence", "the composed model faults (%s)" % f[0], {"script": script, "call_index": k, "stream": "system-full"})
            continue
        sinkmap = {("0", (d + "/out.log").encode()): "out", ("1", b"1"): "so", ("1", b"2"): "se", ("2", (d + "/s.sock").encode()): "sock", ("2", b"/dev/log"): "devlog"}
        expected = {}
        for j in range(int(f[1])):
            key = sinkmap.get((f[2 + 3 * j], bytes.fromhex(f[3 + 3 * j]) if f[3 + 3 * j] != "-" else b""), "?")
            expected.setdefault(key, []).append(f[4 + 3 * j] if f[4 + 3 * j] != "-" else "")
        for nm in ("out", "so", "se"):
            if nm in expected:
                expected[nm] = ["".join(expected[nm])]
        c = per_call(r["records"]).get(k, {"sinks": {}})
        got = {}
        for (nm, hx) in c["sinks"].get("at-exec", []):
            if hx not in ("-", "~"):
                got.setdefault(nm, []).append(hx)
        for nm in ("out", "so", "se"):
            if nm in got:
                got[nm] = ["".join(got[nm])]
        ncmp += 1
        distinct.add((i % len(fmts), tuple(sorted(expected))))
        if got != expected:
            violation(sigprefix + ":records", "spec_violation",
                      "record differs from the composed model with the process-state data sources (format %r): expected %s, observed %s" % (
                          (fmts[i % len(fmts)] or b"<compiled-in default>")[:60], {s: [bytes.fromhex(x)[:120] for x in v] for s, v in expected.items()},
                          {s: [bytes.fromhex(x)[:120] for x in v] for s, v in got.items()}),
                      {"failing_input": {"ini": inibytes(p, "@D@").decode(errors="replace"), "call_index": k}, "script": script, "call_index": k, "stream": "system-full"})
    return ncmp, distinct
