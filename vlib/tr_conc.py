"""T2 translator for C09 / C10 (area Conc).

From clang's JSON AST of the snapshot:
  * Gen_Conc.v     lock skeleton (terms of Conc/LockSkel.v `lk`) of every function of src/tsrm.c: pthread_once, mutex lock /
                   unlock / init, pthread_atfork registration, list operations on the repository, calls of other tsrm
                   functions with their constant arguments, direct accesses to static-storage objects, control structure.
                   Anything not recognised becomes KOther, which no shape predicate accepts.
  * Gen_Globals.v  every object with static storage duration defined in the thread-safe library (file scope and function
                   local `static`), const-ness, TLS-ness, and every access to it (function, read / write / passed to which
                   callee), the function reference graph of the whole library and the functions referenced from static tables.
                   Cross-check: the mutable data symbols `nm` reports on the objects compiled from the same snapshot.
"""
import os, re, subprocess
from concurrent.futures import ThreadPoolExecutor
from .core import CheckError, NCPU
from .skel import clang_ast, q, strip

TSRM = "src/tsrm.c"
PTHREAD_SYNC = {"pthread_mutex_lock": "KLock", "pthread_mutex_unlock": "KUnlock", "pthread_mutex_init": "KMutexInit"}
LIST_OPS = {"snoopy_util_list_push": "push", "snoopy_util_list_remove": "remove", "snoopy_util_list_fetchNextNode": "fetchNextNode"}


def _main_file_decls(tu, relpath):
    """top-level declarations that come from the translation unit's own file (not from headers)"""
    out = []
    cur_file = None
    for n in tu.get("inner", []):
        loc = n.get("loc", {})
        f = loc.get("file") or loc.get("spellingLoc", {}).get("file") or loc.get("expansionLoc", {}).get("file")
        if f:
            cur_file = f
        inc = loc.get("includedFrom") or loc.get("spellingLoc", {}).get("includedFrom") or loc.get("expansionLoc", {}).get("includedFrom")
        n["_file"] = cur_file
        n["_included"] = bool(inc)
        out.append(n)
    return out


def _is_static_storage(v, toplevel):
    if v.get("kind") != "VarDecl":
        return False
    if toplevel:
        return True
    return v.get("storageClass") == "static"


def _const_object(qual):
    """is the OBJECT itself immutable?  (`const char *p` is a mutable pointer; `char *const p`, `const int x`, `const T a[]` are not)"""
    t = qual.strip()
    t = re.sub(r"\[[^\]]*\]", "", t).strip()      # arrays: element type decides
    if t.endswith("*"):
        return False
    if re.search(r"\*\s*const$", t):
        return True
    if "*" in t:
        return False
    return bool(re.search(r"\bconst\b", t))


def _param_types(fn_qual):
    """'int (pthread_once_t *, void (*)(void))' -> list of parameter type strings"""
    m = re.search(r"\((.*)\)\s*$", fn_qual)
    if not m:
        return []
    # first top-level parenthesis group after the return type
    depth = 0
    start = None
    s = fn_qual
    # find the parameter list: the first '(' whose matching ')' ends the string or is followed by nothing but attributes
    i = s.find("(")
    # function pointer return types are not used by this library; take the first group unless it starts with '*'
    groups = []
    for j, ch in enumerate(s):
        if ch == "(":
            if depth == 0:
                start = j
            depth += 1
        elif ch == ")":
            depth -= 1
            if depth == 0:
                groups.append(s[start + 1:j])
    if not groups:
        return []
    plist = groups[0] if not groups[0].lstrip().startswith("*") else (groups[1] if len(groups) > 1 else "")
    out, depth, cur = [], 0, ""
    for ch in plist:
        if ch == "(":
            depth += 1
        elif ch == ")":
            depth -= 1
        if ch == "," and depth == 0:
            out.append(cur.strip()); cur = ""
        else:
            cur += ch
    if cur.strip():
        out.append(cur.strip())
    return out


def _pointee_const(ptype):
    """is the type a pointer whose pointee is const-qualified?  'char *const *' -> True, 'const char *' -> True, 'char **' -> False"""
    t = re.sub(r"\b(restrict|__restrict)\b", "", ptype).strip()
    t = re.sub(r"\*\s*const\s*$", "*", t).strip()
    t = re.sub(r"\[[^\]]*\]\s*$", "*", t).strip()      # array parameter = pointer
    if not t.endswith("*"):
        return False
    pointee = t[:-1].strip()
    if pointee.endswith("const"):
        return True
    return pointee.startswith("const ") and "*" not in pointee


class Unit:
    """one translation unit: static-storage objects, accesses, function references"""

    def __init__(self, run, rel):
        self.rel = rel
        self._params = []
        self.tu = clang_ast(run, rel)
        self.decls = _main_file_decls(self.tu, rel)
        self.objs = {}        # decl id -> dict(name, scope, const, tls, init_addr_of, type)
        self.by_name = {}
        self.funcs = {}       # name -> FunctionDecl (definitions)
        self.accesses = []    # (objname, scope_of_obj, function, kind, detail)
        self.refs = {}        # function -> set(referenced function names)
        self.data_refs = set()
        self.param_uses = {}  # (function, param index) -> [(kind, detail)]
        self.nparams = {}
        self._collect()

    def _collect(self):
        for n in self.decls:
            if n.get("kind") == "VarDecl":
                if n.get("storageClass") == "extern" and not any(isinstance(c, dict) and c.get("kind", "").endswith(("Expr", "Literal", "Operator")) for c in n.get("inner", [])):
                    self._reg(n, "", extern=True)
                else:
                    self._reg(n, "", extern=n["_included"])
                    if not n["_included"]:
                        self._scan_init(n)
            elif n.get("kind") == "FunctionDecl" and any(c.get("kind") == "CompoundStmt" for c in n.get("inner", [])) and not n["_included"]:
                self.funcs[n["name"]] = n
        for name, fn in self.funcs.items():
            self._locals(fn, name)
        for name, fn in self.funcs.items():
            self.refs[name] = set()
            self._params = [c.get("name") for c in fn.get("inner", []) if c.get("kind") == "ParmVarDecl"]
            self.nparams[name] = len(self._params)
            body = [c for c in fn.get("inner", []) if c.get("kind") == "CompoundStmt"][0]
            self._walk(body, name, [])

    def _reg(self, v, scope, extern=False):
        t = v.get("type", {}).get("qualType", "")
        init_addr = None
        for c in v.get("inner", []):
            s = strip(c) if isinstance(c, dict) else {}
            if s.get("kind") == "UnaryOperator" and s.get("opcode") == "&":
                b = strip(s["inner"][0])
                if b.get("kind") == "DeclRefExpr":
                    init_addr = b.get("referencedDecl", {}).get("name")
        d = dict(name=v.get("name", "?"), scope=scope, const=_const_object(t), tls=bool(v.get("tls")), type=t, extern=extern, init_addr_of=init_addr,
                 defined_here=not extern)
        self.objs[v["id"]] = d
        self.by_name.setdefault((d["name"], scope), d)

    def _scan_init(self, v):
        """functions referenced from a static initialiser (registry tables)"""
        def rec(n):
            if isinstance(n, dict):
                if n.get("kind") == "DeclRefExpr" and n.get("referencedDecl", {}).get("kind") == "FunctionDecl":
                    self.data_refs.add(n["referencedDecl"]["name"])
                for c in n.get("inner", []) or []:
                    rec(c)
        for c in v.get("inner", []):
            rec(c)

    def _locals(self, n, fname):
        if isinstance(n, dict):
            if n.get("kind") == "VarDecl" and n.get("storageClass") == "static":
                self._reg(n, fname)
                self._scan_init(n)
            for c in n.get("inner", []) or []:
                self._locals(c, fname)

    def _obj_of(self, declref):
        rd = declref.get("referencedDecl", {})
        if rd.get("kind") != "VarDecl":
            return None
        o = self.objs.get(rd.get("id"))
        if o is None:
            # a redeclaration (extern in a header) of a file-scope object
            o = self.by_name.get((rd.get("name"), ""))
        return o

    def _walk(self, n, fname, ctx):
        """ctx: list of ancestors (innermost last)"""
        if not isinstance(n, dict):
            return
        k = n.get("kind")
        if k == "DeclRefExpr":
            rd = n.get("referencedDecl", {})
            if rd.get("kind") == "FunctionDecl":
                self.refs[fname].add(rd["name"])
            elif rd.get("kind") == "ParmVarDecl" and rd.get("name") in self._params:
                self.param_uses.setdefault((fname, self._params.index(rd["name"])), []).append(self._classify(n, ctx))
            else:
                o = self._obj_of(n)
                if o is not None:
                    kind, detail = self._classify(n, ctx)
                    self.accesses.append((o["name"], o["scope"], fname, kind, detail))
            return
        for c in n.get("inner", []) or []:
            self._walk(c, fname, ctx + [n])

    def _classify(self, ref, ctx):
        """how is this reference to a static-storage object used?  -> (kind, detail)
        kinds: read | write | arrow_read | arrow_write (access to the object the pointer designates) | arg (address or array
        passed to a callee: detail = callee:index:const|mut) | escape (address taken otherwise)"""
        child = ref
        via_arrow = False
        addr = False
        decay = False
        sub = False

        def esc(kind_detail, ty):
            return ("escape_ro" if _pointee_const(ty or "") else "escape", kind_detail)
        for anc in reversed(ctx):
            k = anc.get("kind")
            if k in ("ParenExpr",):
                child = anc; continue
            if k == "ImplicitCastExpr":
                if anc.get("castKind") == "ArrayToPointerDecay":
                    decay = True
                child = anc; continue
            if k == "CStyleCastExpr":
                child = anc; continue
            if k == "MemberExpr":
                if anc.get("isArrow") and not addr and not decay:
                    via_arrow = True
                child = anc; continue
            if k == "ArraySubscriptExpr":
                if anc["inner"][0] is child or strip(anc["inner"][0]) is strip(child):
                    decay = False      # element access of the object itself
                    sub = True
                    child = anc; continue
                return ("read", "index")
            if k == "UnaryOperator":
                op = anc.get("opcode")
                if op == "&":
                    addr = True; child = anc; continue
                if op in ("++", "--"):
                    return ("arrow_write" if via_arrow else "write", ("[]" if sub else "") + op)
                if op == "*":
                    via_arrow = True; child = anc; continue
                return ("arrow_read" if via_arrow else "read", op or "")
            if k in ("BinaryOperator", "CompoundAssignOperator"):
                op = anc.get("opcode", "")
                if (op == "=" or k == "CompoundAssignOperator") and anc["inner"][0] is child:
                    if addr or decay:
                        return ("escape", "assigned")
                    return ("arrow_write" if via_arrow else "write", ("[]" if sub else "") + op)
                if addr or decay:
                    if op == "=" and anc["inner"][1] is child:
                        return esc("stored", anc.get("type", {}).get("qualType"))
                    return ("escape", "operand of " + op)
                return ("arrow_read" if via_arrow else "read", op)
            if k == "CallExpr":
                inner = anc.get("inner", [])
                callee = strip(inner[0])
                if inner[0] is child:
                    return ("read", "called")
                idx = None
                for i, a in enumerate(inner[1:]):
                    if a is child:
                        idx = i
                cname = callee.get("referencedDecl", {}).get("name", "?") if callee.get("kind") == "DeclRefExpr" else "?"
                if addr or decay:
                    ptypes = _param_types(callee.get("type", {}).get("qualType", "")) if callee.get("kind") == "DeclRefExpr" else []
                    # the callee's declared type is on the DeclRefExpr's referencedDecl
                    rdt = callee.get("referencedDecl", {}).get("type", {}).get("qualType", "")
                    ptypes = _param_types(rdt) or ptypes
                    const = idx is not None and idx < len(ptypes) and _pointee_const(ptypes[idx])
                    return ("arg", "%s:%s:%s" % (cname, idx, "const" if const else "mut"))
                if via_arrow:
                    return ("arrow_read", "arg of " + cname)
                rdt = callee.get("referencedDecl", {}).get("type", {}).get("qualType", "") if callee.get("kind") == "DeclRefExpr" else ""
                ptypes = _param_types(rdt)
                pt = ptypes[idx] if idx is not None and idx < len(ptypes) else "?*"
                how = "val" if ("*" not in pt and "[" not in pt and pt != "...") else ("const" if _pointee_const(pt) else "mut")
                return ("valarg", "%s:%s:%s" % (cname, idx, how))
            if k in ("VarDecl",):
                if addr or decay:
                    return esc("initialiser", anc.get("type", {}).get("qualType"))
                return ("arrow_read" if via_arrow else "read", "init")
            if k in ("ReturnStmt",):
                if addr or decay:
                    return esc("returned", child.get("type", {}).get("qualType"))
                return ("arrow_read" if via_arrow else "read", "return")
            if k in ("IfStmt", "WhileStmt", "ForStmt", "DoStmt", "CompoundStmt", "SwitchStmt", "ConditionalOperator"):
                break
            child = anc
        if addr or decay:
            return ("escape", "address")
        return ("arrow_read" if via_arrow else "read", "")


# ------------------------------------------------------------------------------------------------ lock skeleton of tsrm.c
class LockSkel:
    def __init__(self, unit, inline_static=True):
        self.u = unit
        self.local_fns = set(unit.funcs)
        self.labels = {}
        # file-local `static` helpers are spliced into their callers ("extract a static helper" refactorings leave the skeleton unchanged)
        self.static_fns = set(n for n, f in unit.funcs.items() if f.get("storageClass") == "static") if inline_static else set()
        self.inlined, self.kept_calls, self._depth = set(), set(), 0

    def try_inline(self, cname, args):
        """body of a static helper to splice in place of its call, or None.  Conditions: the arguments contain no call, the helper's only
        return is its last statement, and its skeleton does not depend on its parameters"""
        if cname not in self.static_fns or self._depth > 4:
            return None
        def has_call(n):
            if isinstance(n, dict):
                if n.get("kind") == "CallExpr":
                    return True
                return any(has_call(c) for c in n.get("inner", []) or [])
            return False
        if any(has_call(a) for a in args):
            return None
        saved = self.labels
        self._depth += 1
        try:
            _, body = self.function(cname)
        finally:
            self._depth -= 1
            self.labels = saved
        if body and body[-1] == "KReturn":
            body = body[:-1]
        # `return x;` out of a loop that is the helper's last statement before its final return leaves that loop: a `break`
        if body and body[-1].startswith("(KLoop ") and body[-1].count("KLoop") == 1 and "KReturn" in body[-1] and "KReturn" not in " ".join(body[:-1]):
            body = body[:-1] + [body[-1].replace("KReturn", "KBreak")]
        text = " ".join(body)
        if "KReturn" in text or "KParam" in text or "CParam" in text or "KGoto" in text or "KLabel" in text:
            return None
        return body

    def karg(self, a, params):
        a = strip(a)
        if a.get("kind") == "IntegerLiteral":
            return "(KInt (%s)%%Z)" % a.get("value", "0")
        if a.get("kind") == "DeclRefExpr" and a.get("referencedDecl", {}).get("kind") == "ParmVarDecl" and a["referencedDecl"].get("name") in params:
            return "(KParam %d)" % params.index(a["referencedDecl"]["name"])
        return "KOpaque"

    def addr_name(self, a):
        a = strip(a)
        if a.get("kind") == "UnaryOperator" and a.get("opcode") == "&":
            b = strip(a["inner"][0])
            if b.get("kind") == "DeclRefExpr":
                return b.get("referencedDecl", {}).get("name")
        return None

    def global_name(self, a):
        a = strip(a)
        if a.get("kind") == "DeclRefExpr" and self.u._obj_of(a) is not None:
            return a["referencedDecl"]["name"]
        return None

    def eff(self, n, params, lhs=False):
        """effects of evaluating an expression, in order -> list of lk terms"""
        if not isinstance(n, dict) or not n.get("kind"):
            return []
        n0 = n
        n = strip(n)
        k = n.get("kind")
        if k == "CallExpr":
            inner = n.get("inner", [])
            callee = strip(inner[0])
            args = inner[1:]
            cname = callee.get("referencedDecl", {}).get("name") if callee.get("kind") == "DeclRefExpr" and callee.get("referencedDecl", {}).get("kind") == "FunctionDecl" else None
            if cname is None:
                return ['(KOther "indirect call")']
            if cname == "pthread_once" and len(args) == 2 and self.addr_name(args[0]) and self.addr_name(args[1]):
                return ["(KOnce %s %s)" % (q(self.addr_name(args[0])), q(self.addr_name(args[1])))]
            if cname in PTHREAD_SYNC and args and self.addr_name(args[0]):
                pre = []
                for a in args[1:]:
                    pre += [e for e in self.eff(a, params) if not e.startswith("(KGlobal")]
                return pre + ["(%s %s)" % (PTHREAD_SYNC[cname], q(self.addr_name(args[0])))]
            if cname == "pthread_mutexattr_settype" and len(args) == 2 and self.addr_name(args[0]):
                t = strip(args[1])
                ty = t.get("referencedDecl", {}).get("name") if t.get("kind") == "DeclRefExpr" else ("int:%s" % t.get("value") if t.get("kind") == "IntegerLiteral" else "?")
                return ["(KMutexType %s %s)" % (q(self.addr_name(args[0])), q(ty or "?"))]
            if cname == "pthread_atfork" and len(args) == 3:
                names = [self.addr_name(a) or ("" if strip(a).get("kind") in ("IntegerLiteral", "GNUNullExpr") or strip(a).get("kind") == "CStyleCastExpr" else None) for a in args]
                if None not in names:
                    return ["(KAtfork %s %s %s)" % tuple(q(x) for x in names)]
                return ['(KOther "pthread_atfork with unrecognised arguments")']
            if cname in LIST_OPS and args and self.global_name(args[0]):
                pre = []
                for a in args[1:]:
                    pre += self.eff(a, params)
                return pre + ["(KListOp %s %s)" % (q(LIST_OPS[cname]), q(self.global_name(args[0])))]
            pre = []
            for a in args:
                pre += self.eff(a, params)
            if cname in self.static_fns:
                body = self.try_inline(cname, args)
                if body is not None:
                    self.inlined.add(cname)
                    return pre + body
                self.kept_calls.add(cname)
            if cname in self.local_fns:
                return pre + ["(KCall %s [%s])" % (q(cname), "; ".join(self.karg(a, params) for a in args))]
            return pre + ["(KExt %s)" % q(cname)]
        if k == "DeclRefExpr":
            if self.u._obj_of(n) is not None:
                return ["(KGlobal %s %s %s)" % (q(n["referencedDecl"]["name"]), q(""), "true" if lhs else "false")]
            return []
        if k == "MemberExpr":
            base = strip(n["inner"][0])
            if base.get("kind") == "DeclRefExpr" and self.u._obj_of(base) is not None:
                return ["(KGlobal %s %s %s)" % (q(base["referencedDecl"]["name"]), q(n.get("name", "?")), "true" if lhs else "false")]
            return self.eff(n["inner"][0], params, False)
        if k in ("BinaryOperator", "CompoundAssignOperator"):
            if n.get("opcode") == "=" or k == "CompoundAssignOperator":
                return self.eff(n["inner"][1], params) + self.eff(n["inner"][0], params, True)
            return self.eff(n["inner"][0], params) + self.eff(n["inner"][1], params)
        if k == "UnaryOperator":
            if n.get("opcode") in ("++", "--"):
                return self.eff(n["inner"][0], params, True)
            if n.get("opcode") == "&":
                b = strip(n["inner"][0])
                if b.get("kind") == "DeclRefExpr" and self.u._obj_of(b) is not None:
                    return ["(KGlobal %s %s true)" % (q(b["referencedDecl"]["name"]), q("&"))]
            return self.eff(n["inner"][0], params, lhs)
        if k in ("StmtExpr", "ConditionalOperator", "BinaryConditionalOperator"):
            return ["(KOther %s)" % q(k)]
        out = []
        for c in n.get("inner", []) or []:
            out += self.eff(c, params)
        return out

    def cond(self, n, params):
        c = strip(n)
        if c.get("kind") == "BinaryOperator" and c.get("opcode") in ("!=", "=="):
            a, b = strip(c["inner"][0]), strip(c["inner"][1])
            for x, y in ((a, b), (b, a)):
                if x.get("kind") == "IntegerLiteral" and y.get("kind") == "DeclRefExpr" and y.get("referencedDecl", {}).get("kind") == "ParmVarDecl" \
                        and y["referencedDecl"].get("name") in params:
                    return "(%s %d (%s)%%Z)" % ("CParamNe" if c["opcode"] == "!=" else "CParamEq", params.index(y["referencedDecl"]["name"]), x.get("value", "0"))
        return "COther"

    def stmts(self, n, params):
        if n is None or not n.get("kind"):
            return []
        if n.get("kind") == "CompoundStmt":
            out = []
            kids = n.get("inner", []) or []
            for i, c in enumerate(kids):
                # `goto L;` out of a loop whose next statement is `L:` is a `break;`: both spellings give the same skeleton
                nxt = kids[i + 1] if i + 1 < len(kids) else None
                if c.get("kind") in ("WhileStmt", "ForStmt", "DoStmt") and nxt is not None and nxt.get("kind") == "LabelStmt":
                    self.exit_label.append(nxt.get("declId"))
                    out += self.stmt(c, params)
                    self.exit_label.pop()
                else:
                    out += self.stmt(c, params)
            return out
        return self.stmt(n, params)

    def lst(self, items):
        return "[" + "; ".join(items) + "]"

    def stmt(self, n, params):
        k = n.get("kind")
        if k == "DeclStmt":
            out = []
            for d in n.get("inner", []):
                if d.get("kind") == "VarDecl":
                    for c in d.get("inner", []) or []:
                        out += self.eff(c, params)
                else:
                    out.append("(KOther %s)" % q("decl " + str(d.get("kind"))))
            return out
        if k == "IfStmt":
            inner = n.get("inner", [])
            pre = self.eff(inner[0], params)
            th = self.stmts(inner[1], params) if len(inner) > 1 else []
            el = self.stmts(inner[2], params) if len(inner) > 2 else []
            return pre + ["(KIf %s %s %s)" % (self.cond(inner[0], params), self.lst(th), self.lst(el))]
        if k in ("WhileStmt", "DoStmt", "ForStmt"):
            # the label (if any) right behind THIS loop; loops nested inside it have their own
            mine = self.exit_label[-1] if (self.exit_label and self.exit_label[-1] is not None and self._loop_claim != id(n)) else None
            self.loop_exit.append(mine)
            if self.exit_label and self.exit_label[-1] is not None:
                self.exit_label[-1] = None          # consumed by this loop
            try:
                return self._loop(n, k, params)
            finally:
                self.loop_exit.pop()
        return self._stmt2(n, k, params)

    def _loop(self, n, k, params):
        if k == "WhileStmt":
            inner = n.get("inner", [])
            return ["(KLoop %s %s)" % (self.lst(self.eff(inner[0], params)), self.lst(self.stmts(inner[1], params)))]
        if k == "DoStmt":
            inner = n.get("inner", [])
            return ["(KLoop %s %s)" % (self.lst(self.eff(inner[1], params)), self.lst(self.stmts(inner[0], params)))]
        if k == "ForStmt":
            inner = n.get("inner", [])
            pre = self.stmts(inner[0], params) if inner[0] and inner[0].get("kind") else []
            head = self.eff(inner[2], params) if len(inner) >= 5 and inner[2] and inner[2].get("kind") else []
            inc = self.eff(inner[3], params) if len(inner) >= 5 and inner[3] and inner[3].get("kind") else []
            return pre + ["(KLoop %s %s)" % (self.lst(head), self.lst(self.stmts(inner[-1], params) + inc))]
        return []

    def _stmt2(self, n, k, params):
        if k == "ReturnStmt":
            pre = []
            for c in n.get("inner", []) or []:
                pre += self.eff(c, params)
            return pre + ["KReturn"]
        if k == "GotoStmt":
            tgt = n.get("targetLabelDeclId")
            if self.loop_exit and self.loop_exit[-1] is not None and self.loop_exit[-1] == tgt:
                self.goto_as_break[tgt] = self.goto_as_break.get(tgt, 0) + 1
                return ["KBreak"]
            return ["(KGoto %s)" % q(self.labels.get(tgt, "?"))]
        if k == "LabelStmt":
            did = n.get("declId")
            # a label reached only by gotos that were loop exits is no control structure of its own
            out = [] if (self.goto_count.get(did, 0) > 0 and self.goto_as_break.get(did, 0) == self.goto_count.get(did, 0)) else ["(KLabel %s)" % q(n.get("name", "?"))]
            for c in n.get("inner", []) or []:
                out += self.stmt(c, params)
            return out
        if k == "ContinueStmt":
            return ["KContinue"]
        if k == "BreakStmt":
            return ["KBreak"]
        if k == "NullStmt":
            return []
        if k == "CompoundStmt":
            return self.stmts(n, params)
        if k in ("SwitchStmt", "CaseStmt", "DefaultStmt", "IndirectGotoStmt", "GCCAsmStmt"):
            return ["(KOther %s)" % q(k)]
        # expression statement
        return self.eff(n, params)

    def collect_labels(self, n):
        if isinstance(n, dict):
            if n.get("kind") == "GotoStmt":
                self.goto_count[n.get("targetLabelDeclId")] = self.goto_count.get(n.get("targetLabelDeclId"), 0) + 1
            if n.get("kind") == "LabelStmt":
                self.labels[n.get("declId")] = n.get("name", "?")
            for c in n.get("inner", []) or []:
                self.collect_labels(c)

    def function(self, name):
        fn = self.u.funcs[name]
        params = [c["name"] for c in fn.get("inner", []) if c.get("kind") == "ParmVarDecl" and "name" in c]
        body = [c for c in fn.get("inner", []) if c.get("kind") == "CompoundStmt"][0]
        self.labels = {}
        saved = (getattr(self, "goto_count", {}), getattr(self, "goto_as_break", {}), getattr(self, "exit_label", []), getattr(self, "loop_exit", []))
        self.goto_count, self.goto_as_break, self.exit_label, self.loop_exit, self._loop_claim = {}, {}, [], [], None
        self.collect_labels(body)
        try:
            return len(params), self.stmts(body, params)
        finally:
            self.goto_count, self.goto_as_break, self.exit_label, self.loop_exit = saved


def nm_mutable(objs):
    """mutable data symbols (sections B/D/b/d and common) of the compiled objects: [(object basename, letter, symbol)]"""
    out = []
    if not objs:
        return out
    p = subprocess.run(["nm", "-A"] + list(objs), stdout=subprocess.PIPE, text=True)
    for line in p.stdout.splitlines():
        if ":" not in line:
            continue
        o, rest = line.split(":", 1)
        parts = rest.split()
        if len(parts) == 3 and parts[1] in "BbDdCcSs":
            if parts[2].startswith(("__asan", "__ubsan", "__odr", "__tsan", "__sanitizer", "__gcov", "__llvm")) or ".str" in parts[2] or parts[2].startswith(".L"):
                continue
            out.append((os.path.basename(o), parts[1], parts[2]))
    return out


class _Tree:
    """what clang_ast needs of a Run, picklable"""
    def __init__(self, run):
        self.tree = run.tree
        self._defs = run.inih_defs()

    def inih_defs(self):
        return self._defs


def _unit_job(args):
    tree, rel = args
    u = Unit(tree, rel)
    res = dict(rel=rel, objs=list(u.objs.values()), accesses=u.accesses, refs={k: sorted(v) for k, v in u.refs.items()},
               data_refs=sorted(u.data_refs), param_uses=u.param_uses, nparams=u.nparams, skel=None)
    if rel == TSRM:
        ls = LockSkel(u)
        order = [n["name"] for n in u.decls if n.get("kind") == "FunctionDecl" and n.get("name") in u.funcs and not n["_included"]
                 and any(c.get("kind") == "CompoundStmt" for c in n.get("inner", []))]
        skel = [(name,) + ls.function(name) for name in order]
        # a static helper all of whose calls were spliced in has no skeleton of its own any more
        gone = ls.inlined - ls.kept_calls
        res["skel"] = [x for x in skel if x[0] not in gone]
        res["inlined"] = sorted(gone)
        res["ctors"] = [name for name in order if any(isinstance(c, dict) and c.get("kind") == "ConstructorAttr" for c in u.funcs[name].get("inner", []))]
    return res


def _readonly_params(units):
    """(function, index) -> True when the library function never writes through that pointer parameter (greatest fixpoint)"""
    uses, ro = {}, {}
    for u in units:
        for f, n in u["nparams"].items():
            for i in range(n):
                ro[(f, i)] = True
                uses[(f, i)] = u["param_uses"].get((f, i), [])

    def mut(kind, detail):
        if kind in ("arrow_write", "escape"):
            return True
        if kind == "write" and detail.startswith("[]"):
            return True
        if kind in ("arg", "valarg"):
            parts = detail.rsplit(":", 2)
            if len(parts) == 3 and parts[2] == "mut":
                try:
                    key = (parts[0], int(parts[1]))
                except ValueError:
                    return True
                return not ro.get(key, False)
        return False
    changed = True
    while changed:
        changed = False
        for key, us in uses.items():
            if ro[key] and any(mut(k, d) for (k, d) in us):
                ro[key] = False
                changed = True
    return ro


def tr_conc(run, objs=None):
    """writes Gen_Conc.v and Gen_Globals.v; returns a dict with the facts the check and the generators use"""
    from concurrent.futures import ProcessPoolExecutor
    srcs = [os.path.relpath(s, run.tree) for s in run.lib_sources(entry=True)]
    srcs = [s for s in srcs if not s.endswith("entrypoint/cli.c")]
    tree = _Tree(run)
    with ProcessPoolExecutor(min(8, NCPU)) as ex:
        units = list(ex.map(_unit_job, [(tree, s) for s in srcs], chunksize=4))
    byrel = {u["rel"]: u for u in units}
    ro = _readonly_params(units)
    # ---------------------------------------------------------------- Gen_Conc.v
    out = ["(* GENERATED from the current working tree of the repository by vlib/tr_conc.py (clang AST of src/tsrm.c) -- do not edit *)",
           "From Coq Require Import String ZArith List.", "From Snoopy Require Import Conc.LockSkel.", "Import ListNotations.",
           "Local Open Scope string_scope.", ""]
    fn_names = []
    if TSRM in byrel:
        for (name, npar, body) in byrel[TSRM]["skel"]:
            fn_names.append(name)
            out.append("Definition lk_%s : lkfn := {| lk_name := %s; lk_nparams := %d; lk_body :=\n  [%s] |}.\n" % (name, q(name), npar, ";\n   ".join(body)))
    else:
        run.notes.append("tr_conc: src/tsrm.c is not part of the library sources")
    out.append("Definition tsrm_fns : list lkfn := [%s]." % "; ".join("lk_" + n for n in fn_names))
    ctors = byrel[TSRM].get("ctors", []) if TSRM in byrel else []
    if TSRM in byrel and byrel[TSRM].get("inlined"):
        out.append("(* file-local static helpers spliced into their callers: %s *)" % ", ".join(byrel[TSRM]["inlined"]))
    out.append("Definition inlined_helpers : list string := [%s]." % "; ".join(q(c) for c in (byrel[TSRM].get("inlined", []) if TSRM in byrel else [])))
    out.append("(* functions of src/tsrm.c that carry __attribute__((constructor)) *)")
    out.append("Definition constructors : list string := [%s]." % "; ".join(q(c) for c in ctors))
    run.write_gen("Gen_Conc.v", "\n".join(out) + "\n")
    # ---------------------------------------------------------------- Gen_Globals.v
    glob = {}    # (name, scope, file) -> record
    for u in units:
        for o in u["objs"]:
            if not o["defined_here"]:
                continue
            key = (o["name"], o["scope"], u["rel"])
            glob[key] = dict(name=o["name"], scope=o["scope"], file=u["rel"], const=o["const"], tls=o["tls"], type=o["type"], init_addr_of=o["init_addr_of"], acc=[])
    # accesses: local statics belong to their unit; file-scope objects are matched by name across units
    def_file = {}
    for (name, scope, f) in glob:
        if scope == "":
            def_file.setdefault(name, f)

    def refine(kind, detail):
        """an address handed to a library function that never writes through that parameter is a read-only use"""
        if kind in ("arg", "valarg"):
            parts = detail.rsplit(":", 2)
            if len(parts) == 3 and parts[2] == "mut":
                try:
                    if ro.get((parts[0], int(parts[1])), False):
                        return kind, "%s:%s:ro" % (parts[0], parts[1])
                except ValueError:
                    pass
        return kind, detail
    unresolved = []
    for u in units:
        for (oname, oscope, fn, kind, detail) in u["accesses"]:
            if oscope != "":
                key = (oname, oscope, u["rel"])
            else:
                key = (oname, "", def_file.get(oname))
            if key in glob:
                kind, detail = refine(kind, detail)
                glob[key]["acc"].append((u["rel"], fn, kind, detail))
            else:
                unresolved.append((oname, u["rel"], fn))
    # libc objects (environ, stdout, stderr) are not objects of the library
    unresolved = sorted(set(x for x in unresolved if x[0] not in ("environ", "stdout", "stderr", "stdin", "__environ", "optarg", "optind", "opterr", "optopt")))
    refs = {}
    data_refs = set()
    for u in units:
        for f, rs in u["refs"].items():
            refs.setdefault(f, set()).update(rs)
        data_refs |= set(u["data_refs"])
    nm_syms = nm_mutable(objs) if objs else []
    lines = ["(* GENERATED from the current working tree of the repository by vlib/tr_conc.py (clang AST of every library source; nm) -- do not edit *)",
             "From Coq Require Import String List Bool.", "From Snoopy Require Import Conc.LockSkel.", "Import ListNotations.", "Local Open Scope string_scope.", ""]
    recs = []
    for key in sorted(glob):
        g = glob[key]
        accs = sorted(set(g["acc"]))
        acc_terms = "; ".join("mkAcc %s %s %s %s" % (q(f), q(fn), q(kind), q(detail)) for (f, fn, kind, detail) in accs)
        recs.append("  mkGobj %s %s %s %s %s %s %s\n    [%s]" % (q(g["name"]), q(g["scope"]), q(g["file"]), q(g["type"]), "true" if g["const"] else "false",
                                                           "true" if g["tls"] else "false", q(g["init_addr_of"] or ""), acc_terms))
    lines.append("Definition globals : list gobj := [\n%s\n]." % ";\n".join(recs))
    lines.append("Definition fn_refs : list (string * list string) := [\n%s\n]." % ";\n".join(
        "  (%s, [%s])" % (q(f), "; ".join(q(r) for r in sorted(rs))) for f, rs in sorted(refs.items())))
    lines.append("Definition data_refs : list string := [%s]." % "; ".join(q(r) for r in sorted(data_refs)))
    lines.append("Definition nm_symbols : list string := [%s]." % "; ".join(q(s) for s in sorted(set(x[2] for x in nm_syms))))
    lines.append("Definition unresolved_refs : list string := [%s]." % "; ".join(q("%s in %s:%s" % x) for x in unresolved))
    run.write_gen("Gen_Globals.v", "\n".join(lines) + "\n")
    facts = {"tsrm_functions": fn_names, "globals": [dict(g, acc=sorted(set(g["acc"]))) for g in glob.values()], "nm": nm_syms, "unresolved": unresolved,
             "n_functions": len(refs)}
    run.consts["conc"] = facts
    return facts
