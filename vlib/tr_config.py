"""T1 translator for the configuration path (C08; reused by C02/C11): lib/inih flags, option registry, value parser
literals, syslog ladders (constants from <syslog.h> through the compiler), length parser shape, compiled-in defaults,
`snoopyctl conf` print formats.  Writes Gen_Config.v + consts_config.{json,tsv}.

Anything that is not recognised is rendered as a value that makes [config_consts_ok] false and noted in run.notes."""
import json, os, re, subprocess
from .translate import strip_comments, func_body, c_unescape, STR
from .core import coq_bytes, hexs, CheckError

OPT_KINDS = {"error_logging": "OErrorLogging", "filter_chain": "OFilterChain", "message_format": "OMessageFormat", "output": "OOutput",
             "syslog_facility": "OFacility", "syslog_ident": "OIdent", "syslog_level": "OLevel",
             "datasource_message_max_length": "ODsLen", "log_message_max_length": "OLogLen"}
TYPES = {"SNOOPY_CONFIGFILE_OPTION_TYPE_BOOL": "TBool", "SNOOPY_CONFIGFILE_OPTION_TYPE_STRING": "TString",
         "SNOOPY_CONFIGFILE_OPTION_TYPE_INT": "TInt", "SNOOPY_CONFIGFILE_OPTION_TYPE_NONE": "TNone"}


def cc_eval(run, items, includes, defs=(), pre=""):
    """items: list of (key, kind, expr) with kind 'i' (integer expression) or 's' (string expression).
    One compile+run with the build's preprocessor; returns {key: int|bytes} (missing keys: did not compile)."""
    def prog(sel):
        body = []
        for k, kind, e in sel:
            if kind == "i":
                body.append('printf("%s\\ti\\t%%lld\\n", (long long)(%s));' % (k, e))
            else:
                body.append('{ const char *s_ = (%s); printf("%s\\ts\\t"); for (; *s_; s_++) printf("%%02x", (unsigned char)*s_); printf("\\n"); }' % (e, k))
        return pre + "".join("#include <%s>\n" % i if not i.startswith('"') else "#include %s\n" % i for i in includes) + \
            "#include <stdio.h>\nint main(void){\n" + "\n".join(body) + "\nreturn 0;}\n"

    def attempt(sel):
        exe = os.path.join(run.scratch, "cceval")
        p = subprocess.run(["gcc", "-x", "c", "-", "-o", exe, "-I" + run.tree, "-I" + os.path.join(run.tree, "src"), "-DHAVE_CONFIG_H", "-w"] + list(defs),
                           input=prog(sel), text=True, stdout=subprocess.PIPE, stderr=subprocess.STDOUT)
        if p.returncode != 0:
            return None
        out = {}
        for line in subprocess.run([exe], stdout=subprocess.PIPE, text=True).stdout.splitlines():
            k, kind, v = line.split("\t")
            out[k] = int(v) if kind == "i" else bytes.fromhex(v)
        return out
    r = attempt(items)
    if r is not None:
        return r
    out = {}
    for it in items:                      # isolate the expressions that do not compile
        r = attempt([it])
        if r:
            out.update(r)
    return out


def probe(run, text, tag):
    """Compile and run a small probe program built from source text of the snapshot (translation by evaluation: used only when the
    textual form of a table-like function is not recognised).  Returns its stdout lines, or None."""
    exe = os.path.join(run.scratch, "probe_" + tag)
    p = subprocess.run(["gcc", "-x", "c", "-", "-o", exe, "-I" + run.tree, "-I" + os.path.join(run.tree, "src"), "-DHAVE_CONFIG_H", "-D_GNU_SOURCE", "-w"],
                       input=text, text=True, stdout=subprocess.PIPE, stderr=subprocess.STDOUT)
    if p.returncode != 0:
        return None
    try:
        r = subprocess.run([exe], stdout=subprocess.PIPE, stderr=subprocess.DEVNULL, text=True, timeout=20)
    except subprocess.TimeoutExpired:
        return None
    return r.stdout.splitlines() if r.returncode == 0 else None


def func_def(src, name, rettype):
    """Text of a complete definition `rettype name(params) { body }` rebuilt from the (comment-stripped) source, or None."""
    m = re.search(r"\b" + re.escape(name) + r"\s*\(([^;{)]*)\)\s*\{", src)
    body = func_body(src, name)
    if not m or body is None:
        return None
    return "%s %s(%s) {%s}\n" % (rettype, name, m.group(1), body)


def preprocess(run, rel, defs=()):
    p = subprocess.run(["gcc", "-E", "-P", "-DHAVE_CONFIG_H", "-I" + run.tree, "-I" + os.path.join(run.tree, "src"), "-w"] + list(defs) + [os.path.join(run.tree, rel)],
                       stdout=subprocess.PIPE, stderr=subprocess.PIPE, text=True, errors="replace")
    return p.stdout if p.returncode == 0 else ""


def cstrings(expr):
    """concatenated C string literals -> bytes, or None"""
    lits = re.findall(STR, expr)
    if not lits or re.sub(STR, "", expr).strip():
        return None
    return b"".join(c_unescape(x) for x in lits)


def tr_config(run):
    notes = run.notes
    v = {}

    def note(msg):
        notes.append("translator(config): " + msg)

    # ---------------------------------------------------------------- lib/inih
    idefs = run.inih_defs()
    ini_c = strip_comments(run.src("lib/inih/src/ini.c"))
    items = [("ini_max_line", "i", "INI_MAX_LINE"), ("use_stack", "i", "INI_USE_STACK"), ("multiline", "i", "INI_ALLOW_MULTILINE"),
             ("bom", "i", "INI_ALLOW_BOM"), ("inline", "i", "INI_ALLOW_INLINE_COMMENTS"), ("stop", "i", "INI_STOP_ON_FIRST_ERROR"),
             ("newsec", "i", "INI_CALL_HANDLER_ON_NEW_SECTION"), ("noval", "i", "INI_ALLOW_NO_VALUE"), ("lineno", "i", "INI_HANDLER_LINENO"),
             ("ini_start_comment", "s", "INI_START_COMMENT_PREFIXES"), ("ini_inline_comment", "s", "INI_INLINE_COMMENT_PREFIXES")]
    r = cc_eval(run, items, ['"lib/inih/src/ini.h"'], defs=idefs)
    v["ini_max_line"] = r.get("ini_max_line")
    v["ini_start_comment"] = r.get("ini_start_comment")
    v["ini_inline_comment"] = r.get("ini_inline_comment")
    flags = [r.get(k) for k in ("use_stack", "multiline", "bom", "inline", "stop", "newsec", "noval", "lineno")]
    v["ini_flags_ok"] = flags == [1, 1, 1, 1, 0, 0, 0, 0]
    if not v["ini_flags_ok"]:
        note("inih feature flags differ from the modelled configuration: %r" % flags)
    m1 = re.search(r"#\s*define\s+MAX_SECTION\s+(\d+)", ini_c)
    m2 = re.search(r"#\s*define\s+MAX_NAME\s+(\d+)", ini_c)
    ok_arr = re.search(r"char\s+section\s*\[\s*MAX_SECTION\s*\]", ini_c) and re.search(r"char\s+prev_name\s*\[\s*MAX_NAME\s*\]", ini_c) \
        and re.search(r"strncpy0\s*\(\s*section\s*,\s*start\s*\+\s*1\s*,\s*sizeof\s*\(\s*section\s*\)\s*\)", ini_c) \
        and re.search(r"strncpy0\s*\(\s*prev_name\s*,\s*name\s*,\s*sizeof\s*\(\s*prev_name\s*\)\s*\)", ini_c) \
        and re.search(r"char\s+line\s*\[\s*INI_MAX_LINE\s*\]", ini_c)
    v["ini_max_section"] = int(m1.group(1)) if m1 and ok_arr else None
    v["ini_max_name"] = int(m2.group(1)) if m2 and ok_arr else None

    # ---------------------------------------------------------------- configfile.c
    cf_raw = run.src("src/configfile.c")
    cf = strip_comments(cf_raw)
    cb = func_body(cf, "snoopy_configfile_iniParser_callback") or ""
    m = re.search(r"strcmp\s*\(\s*section\s*,\s*" + STR + r"\s*\)", cb)
    v["section_name"] = c_unescape(m.group(1)) if m else None
    # the registry, as the compiler sees it (guards evaluated by the preprocessor)
    pp = preprocess(run, "src/configfile.c")
    hdr = strip_comments(run.src("src/configfile.h"))
    tvals = cc_eval(run, [(k, "i", k) for k in TYPES], ['"configfile.h"'])
    tmap = {tvals[k]: TYPES[k] for k in TYPES if k in tvals}
    rows = None
    m = re.search(r"snoopy_configfile_optionRegistry\s*\[\s*\]\s*=\s*\{(.*?)\}\s*;", pp, re.S)
    if m:
        rows = []
        for rm in re.finditer(r"\{\s*" + STR + r"\s*,\s*\{\s*(\d+)\s*,\s*&?\s*([A-Za-z_0-9]+|\(\(void\s*\*\)\s*0\))\s*,\s*&?\s*([A-Za-z_0-9]+|\(\(void\s*\*\)\s*0\))\s*\}\s*\}", m.group(1)):
            name = c_unescape(rm.group(1))
            if name == b"":
                break
            pk = re.fullmatch(r"snoopy_configfile_parseValue_(\w+)", rm.group(3))
            rk = re.fullmatch(r"snoopy_configfile_getOptionValueAsString_(\w+)", rm.group(4))
            rows.append({"name": name, "type": tmap.get(int(rm.group(2)), "TNone"),
                         "parse": OPT_KINDS.get(pk.group(1), "OUnknown") if pk else "OUnknown",
                         "render": OPT_KINDS.get(rk.group(1), "OUnknown") if rk else "OUnknown"})
        # lexer-level cross-check: every row of the raw source whose guard is defined in config.h must be in the preprocessed table
        raw_rows = re.findall(r'^\s*\{\s*"([a-z_]+)"\s*,\s*\{', cf, re.M)
        if not set(r_["name"].decode() for r_ in rows) <= set(raw_rows):
            note("option registry: preprocessed rows are not a subset of the source rows")
            rows = None
    if rows is None:
        note("option registry not recognised")
    v["options"] = rows
    # lookup functions walk the registry with strcmp and stop at the empty name; getOptionValueAsString may have its own copy of the
    # loop or call getIdFromName and index the registry with the result (NULL when not supported)
    LOOP = (r'for\s*\(\s*int\s+(\w+)\s*=\s*0\s*;\s*0\s*!=\s*strcmp\s*\(\s*snoopy_configfile_optionRegistry\s*\[\s*\1\s*\]\s*\.name\s*,\s*""\s*\)\s*;\s*\1\+\+\s*\)\s*\{'
            r'\s*if\s*\(\s*strcmp\s*\(\s*snoopy_configfile_optionRegistry\s*\[\s*\1\s*\]\s*\.name\s*,\s*optionName\s*\)\s*==\s*0\s*\)')
    bid = func_body(cf, "snoopy_configfile_optionRegistry_getIdFromName") or ""
    id_ok = bool(re.search(LOOP + r"\s*\{\s*return\s+\1\s*;\s*\}\s*\}\s*return\s+SNOOPY_CONFIGFILE_OPTION_NOT_SUPPORTED\s*;", bid))
    if not id_ok:
        note("snoopy_configfile_optionRegistry_getIdFromName: lookup loop not recognised")
        v["options"] = None
    bgv = func_body(cf, "snoopy_configfile_optionRegistry_getOptionValueAsString") or ""
    own_loop = re.search(LOOP + r"\s*\{\s*return\s+snoopy_configfile_optionRegistry\s*\[\s*\1\s*\]\s*\.data\.getValueAsStringPtr\s*\(\s*\)\s*;\s*\}\s*\}\s*return\s+NULL\s*;", bgv)
    mh = re.search(r"(?:int\s+)?(\w+)\s*=\s*snoopy_configfile_optionRegistry_getIdFromName\s*\(\s*optionName\s*\)\s*;", bgv)
    via_helper = False
    if mh and id_ok:
        idv = mh.group(1)
        ns = r"(?:SNOOPY_CONFIGFILE_OPTION_NOT_SUPPORTED|-1)"
        guard = re.search(r"if\s*\(\s*(?:%s\s*==\s*%s|%s\s*==\s*%s)\s*\)\s*\{?\s*return\s+NULL\s*;\s*\}?" % (ns, idv, idv, ns), bgv)
        ret = re.search(r"return\s+snoopy_configfile_optionRegistry\s*\[\s*%s\s*\]\s*\.data\.getValueAsStringPtr\s*\(\s*\)\s*;" % idv, bgv)
        via_helper = bool(guard and ret and guard.start() < ret.start() and len(re.findall(r"\breturn\b", bgv)) == 2 and not re.search(r"\b(for|while|goto)\b", bgv))
    if not (own_loop or via_helper):
        note("snoopy_configfile_optionRegistry_getOptionValueAsString: neither the registry loop nor a lookup through getIdFromName recognised")
        v["options"] = None
    # booleans
    gb = func_body(cf, "snoopy_configfile_getboolean") or ""
    m = re.search(r"if\s*\((.*?)\)\s*\{\s*ret\s*=\s*SNOOPY_TRUE\s*;\s*\}\s*else\s+if\s*\((.*?)\)\s*\{\s*ret\s*=\s*SNOOPY_FALSE\s*;\s*\}\s*else\s*\{\s*ret\s*=\s*notfound\s*;", gb, re.S)
    if m:
        def letters(cond):
            parts = [p.strip() for p in cond.split("||")]
            out = bytearray()
            for p in parts:
                mm = re.fullmatch(r"c\s*\[\s*0\s*\]\s*==\s*'(\\?.)'", p)
                if not mm:
                    return None
                out += c_unescape(mm.group(1))
            return bytes(out)
        v["bool_true"], v["bool_false"] = letters(m.group(1)), letters(m.group(2))
    else:
        # not the two-armed if: read the function by running it on every first byte (and check that only the first byte decides)
        v["bool_true"] = v["bool_false"] = None
        fd = func_def(cf, "snoopy_configfile_getboolean", "int")
        if fd:
            out = probe(run, '#include "snoopy.h"\n#include <stdio.h>\n' + fd + """
int main(void){ char b[4]; for (int i = 1; i < 256; i++) { b[0]=(char)i; b[1]=0; int r0 = snoopy_configfile_getboolean(b, -1);
  b[1]='x'; b[2]=0; int r1 = snoopy_configfile_getboolean(b, -1); b[1]=(char)(i ^ 0x55 ? i ^ 0x55 : 1); int r2 = snoopy_configfile_getboolean(b, -1);
  int r3 = snoopy_configfile_getboolean(b, 7);
  printf("%d %d %d %d %d\\n", i, r0, r1, r2, r3); } printf("e %d %d\\n", snoopy_configfile_getboolean("", -1), snoopy_configfile_getboolean("", 7)); return 0; }""", "getboolean")
            tv = cc_eval(run, [("t", "i", "SNOOPY_TRUE"), ("f", "i", "SNOOPY_FALSE")], ['"snoopy.h"'])
            if out and len(out) == 256 and "t" in tv and "f" in tv:
                rows_ = [list(map(int, l.split())) for l in out[:255]]
                first_only = all(r_[1] == r_[2] == r_[3] for r_ in rows_) and all((r_[4] == 7) == (r_[1] == -1) for r_ in rows_) and out[255] == "e -1 7"
                known_ = all(r_[1] in (tv["t"], tv["f"], -1) for r_ in rows_)
                if first_only and known_:
                    v["bool_true"] = bytes(r_[0] for r_ in rows_ if r_[1] == tv["t"])
                    v["bool_false"] = bytes(r_[0] for r_ in rows_ if r_[1] == tv["f"])
                    note("getboolean read by evaluation over all first bytes (textual form not the two-armed if)")
    pb = func_body(cf, "snoopy_configfile_parseValue_error_logging") or ""
    if not re.search(r"confValInt\s*=\s*snoopy_configfile_getboolean\s*\(\s*confValString\s*,\s*-1\s*\)\s*;\s*if\s*\(\s*-1\s*!=\s*confValInt\s*\)\s*\{\s*CFG->error_logging_enabled\s*=\s*confValInt\s*;", pb):
        note("parseValue_error_logging not recognised")
        v["bool_true"] = None
    eb = func_body(cf, "snoopy_configfile_getOptionValueAsString_error_logging") or ""
    m = re.search(r"if\s*\(\s*CFG->error_logging_enabled\s*==\s*SNOOPY_TRUE\s*\)\s*\{\s*return\s+strdup\s*\(\s*" + STR + r"\s*\)\s*;\s*\}\s*else\s*\{\s*return\s+strdup\s*\(\s*" + STR + r"\s*\)", eb)
    v["bool_yes"] = c_unescape(m.group(1)) if m else None
    v["bool_no"] = c_unescape(m.group(2)) if m else None
    # LOG_ prefix handling, two layers
    rp = func_body(cf, "snoopy_configfile_syslog_value_remove_prefix") or ""
    m = re.search(r"if\s*\(\s*0\s*==\s*strncmp\s*\(\s*confVal\s*,\s*" + STR + r"\s*,\s*(\d+)\s*\)\s*\)\s*\{\s*return\s+confVal\s*\+\s*(\d+)\s*;\s*\}\s*else\s*\{\s*return\s+confVal\s*;", rp)
    pref = None
    if m and len(c_unescape(m.group(1))) == int(m.group(2)) == int(m.group(3)):
        pref = c_unescape(m.group(1))
    cl = func_body(cf, "snoopy_configfile_syslog_value_cleanup") or ""
    upper = bool(re.search(r"snoopy_util_string_toUpper\s*\(\s*confVal\s*\)", cl))
    calls_rp = bool(re.search(r"confValCleaned\s*=\s*snoopy_configfile_syslog_value_remove_prefix\s*\(\s*confVal\s*\)", cl))
    plain = bool(re.search(r"confValCleaned\s*=\s*confVal\s*;", cl)) or bool(re.search(r"return\s+confVal\s*;", cl))
    if not upper or not (calls_rp or plain):
        note("syslog_value_cleanup not recognised")
        v["cfg_strips"] = None
    else:
        v["cfg_strips"] = calls_rp
    up = func_body(strip_comments(run.src("src/util/string.c")), "snoopy_util_string_toUpper") or ""
    if not re.search(r"\(\s*\*s\s*>=\s*'a'\s*\)\s*&&\s*\(\s*\*s\s*<=\s*'z'\s*\)\s*\)\s*\{\s*\*s\s*-=\s*\(\s*'a'\s*-\s*'A'\s*\)", up):
        note("snoopy_util_string_toUpper not recognised")
        v["cfg_strips"] = None
    sy = strip_comments(run.src("src/util/syslog.c"))
    util_pref = []
    tables = {}
    for fn, var, adj in (("snoopy_util_syslog_convertFacilityToInt", "facilityStr", "facilityStrAdj"), ("snoopy_util_syslog_convertLevelToInt", "levelStr", "levelStrAdj")):
        b = func_body(sy, fn) or ""
        # the optional prefix is skipped in place, or through a file-local static helper, or not at all
        def skip_(txt, src_, assign_):
            """txt holds `if (0 == strncmp(src, "LIT", N)) { <assign_ % '&src[N]' or 'src + N'> }`: return LIT or None"""
            m_ = re.search(r"if\s*\(\s*(?:0\s*==\s*strncmp\s*\(\s*%s\s*,\s*%s\s*,\s*(\d+)\s*\)|strncmp\s*\(\s*%s\s*,\s*%s\s*,\s*(\d+)\s*\)\s*==\s*0)\s*\)\s*\{\s*%s\s*\}"
                           % (src_, STR, src_, STR, assign_ % (r"(?:&\s*%s\s*\[\s*(\d+)\s*\]|%s\s*\+\s*(\d+))" % (src_, src_))), txt)
            if not m_:
                return None
            lit = c_unescape(m_.group(1) if m_.group(1) is not None else m_.group(3))
            n1 = int(m_.group(2) or m_.group(4))
            n2 = int(m_.group(5) or m_.group(6))
            return lit if len(lit) == n1 == n2 and len(re.findall(r"strncmp\s*\(", txt)) == 1 else None
        mh_ = re.search(r"\b%s\s*=\s*(\w+)\s*\(\s*%s\s*\)\s*;" % (adj, var), b)
        if mh_ and not re.search(r"strncmp\s*\(", b):
            hname = mh_.group(1)
            hm = re.search(r"\bstatic\s+(?:const\s+)?char\s*(?:const\s*)?\*\s*%s\s*\(\s*(?:const\s+)?char\s*(?:const\s*)?\*\s*(?:const\s+)?(\w+)\s*\)\s*\{" % hname, sy)
            hb_ = func_body(sy, hname) if hm else None
            lit = None
            if hb_ is not None:
                prm = hm.group(1)
                lit = skip_(hb_, prm, r"return\s+%s\s*;")
                if lit is not None and not (re.search(r"\}\s*return\s+%s\s*;\s*$" % prm, hb_.strip()) and len(re.findall(r"\breturn\b", hb_)) == 2):
                    lit = None
            util_pref.append(lit)
            if lit is None:
                note("%s: prefix helper %s not recognised" % (fn, hname))
        elif re.search(r"strncmp\s*\(", b):
            lit = skip_(b, var, r"%s\s*=\s*%%s\s*;" % adj)
            if lit is not None and not re.search(r"\b%s\s*=\s*%s\s*;" % (adj, var), b):
                lit = None
            util_pref.append(lit)
        elif re.search(r"\b%s\s*=\s*%s\s*;" % (adj, var), b) and "[3]" not in b and "[4]" not in b:
            util_pref.append(b"")
        else:
            util_pref.append(None)           # some prefix handling that is not a recognised one
        ladder = re.findall(r"(?:if|else\s+if)\s*\(\s*strcmp\s*\(\s*%s\s*,\s*%s\s*\)\s*==\s*0\s*\)\s*\{\s*\w+\s*=\s*(LOG_[A-Z0-9]+)\s*;\s*\}" % (adj, STR), b)
        m = re.search(r"else\s*\{\s*\w+Int\s*=\s*([^;]+);\s*\}\s*return\s+\w+Int\s*;", b)
        tail = m.group(1).strip() if m else None
        tables[fn] = (ladder, tail, len(re.findall(r"strcmp\s*\(", b)))
    if None in util_pref or util_pref[0] != util_pref[1]:
        note("util/syslog.c prefix handling not recognised")
        v["util_strips"] = None
        pref_util = None
    else:
        v["util_strips"] = util_pref[0] != b""
        pref_util = util_pref[0] or None
    if calls_rp and pref is None:
        note("configfile.c remove_prefix not recognised")
        v["cfg_strips"] = None
    if pref is not None and pref_util is not None and pref != pref_util:
        note("LOG_ prefix literals differ between configfile.c and util/syslog.c")
        v["log_prefix"] = None
    else:
        v["log_prefix"] = pref if pref is not None else pref_util
    # both syslog option parsers: cleanup -> convert -> default on -1
    for opt, conv, dflt, field in (("syslog_facility", "snoopy_util_syslog_convertFacilityToInt", "SNOOPY_SYSLOG_FACILITY", "syslog_facility"),
                                   ("syslog_level", "snoopy_util_syslog_convertLevelToInt", "SNOOPY_SYSLOG_LEVEL", "syslog_level")):
        b = func_body(cf, "snoopy_configfile_parseValue_" + opt) or ""
        if not (re.search(r"confValCleaned\s*=\s*snoopy_configfile_syslog_value_cleanup\s*\(\s*confVal\s*\)", b)
                and re.search(r"\w+Int\s*=\s*%s\s*\(\s*confValCleaned\s*\)\s*;\s*if\s*\(\s*-1\s*==\s*\w+Int\s*\)\s*\{\s*CFG->%s\s*=\s*%s\s*;\s*\}\s*else\s*\{\s*CFG->%s\s*=\s*\w+Int\s*;" % (conv, field, dflt, field), b)):
            note("parseValue_%s not recognised" % opt)
            v["cfg_strips"] = None
    # output
    ob = func_body(cf, "snoopy_configfile_parseValue_output") or ""
    m = re.search(r"colonPtr\s*=\s*strchr\s*\(\s*confVal\s*,\s*'(\\?.)'\s*\)", ob)
    v["output_sep"] = c_unescape(m.group(1))[0] if m else None
    go = func_body(cf, "snoopy_configfile_getOptionValueAsString_output") or ""
    m = re.search(r"snprintf\s*\(\s*outputString\s*,\s*outputStringBufSize\s*,\s*" + STR, go)
    if not (m and v["output_sep"] is not None and c_unescape(m.group(1)) == b"%s" + bytes([v["output_sep"]]) + b"%s"
            and re.search(r'if\s*\(\s*0\s*==\s*strcmp\s*\(\s*""\s*,\s*CFG->output_arg\s*\)\s*\)\s*\{\s*outputString\s*=\s*strdup\s*\(\s*CFG->output\s*\)', go)):
        note("getOptionValueAsString_output not recognised")
        v["output_sep"] = None
    opp = preprocess(run, "src/outputregistry.c")
    m = re.search(r"snoopy_outputregistry_names\s*\[\s*\]\s*=\s*\{(.*?)\}\s*;", opp, re.S)
    names = None
    if m:
        names = []
        for s_ in re.findall(STR, m.group(1)):
            if s_ == "":
                break
            names.append(c_unescape(s_))
    v["output_names"] = names

    # ---------------------------------------------------------------- util/syslog.c tables
    def str_ladder(fn, var):
        b = func_body(sy, fn) or ""
        rows_ = re.findall(r"(?:if|else\s+if)\s*\(\s*(LOG_[A-Z0-9]+)\s*==\s*%s\s*\)\s*\{\s*\w+\s*=\s*%s\s*;\s*\}" % (var, STR), b)
        m_ = re.search(r"else\s*\{\s*\w+Str\s*=\s*" + STR + r"\s*;\s*\}\s*return", b)
        return rows_, (c_unescape(m_.group(1)) if m_ else None), len(re.findall(r"==\s*%s\b" % var, b))
    f2s, finv, fcnt = str_ladder("snoopy_util_syslog_convertFacilityToStr", "facilityInt")
    l2s, linv, lcnt = str_ladder("snoopy_util_syslog_convertLevelToStr", "levelInt")
    macros = sorted(set([m_ for _, m_ in tables["snoopy_util_syslog_convertFacilityToInt"][0]] + [m_ for _, m_ in tables["snoopy_util_syslog_convertLevelToInt"][0]]
                        + [m_ for m_, _ in f2s] + [m_ for m_, _ in l2s]))
    mv = cc_eval(run, [(m_, "i", m_) for m_ in macros], ["syslog.h"])
    # cross-check through the preprocessor alone (gcc -E): the macro bodies, evaluated by Python
    ppm = subprocess.run(["gcc", "-E", "-P", "-x", "c", "-"], input="#include <syslog.h>\n" + "".join("@%d@ %s\n" % (i_, m_) for i_, m_ in enumerate(macros)),
                         text=True, stdout=subprocess.PIPE, stderr=subprocess.DEVNULL).stdout
    for i_, m_ in enumerate(macros):
        mm = re.search(r"@%d@\s*(.+)" % i_, ppm)
        try:
            val = eval(mm.group(1), {"__builtins__": {}}) if mm and re.fullmatch(r"[\d\s()<|+*-]+", mm.group(1)) else None
        except Exception:
            val = None
        if val is None or mv.get(m_) != val:
            note("syslog constant %s: compiler and preprocessor disagree or value not constant" % m_)
            mv.pop(m_, None)

    def to_int_table(fn, dflt_macro):
        ladder, tail, nstrcmp = tables[fn]
        if tail not in ("-1", dflt_macro) or nstrcmp != len(ladder) or not ladder or any(m_ not in mv for _, m_ in ladder):
            note("%s: ladder not recognised" % fn)
            return None
        return [(c_unescape(n), mv[m_]) for n, m_ in ladder]

    def to_str_table(rows_, cnt, fn):
        if cnt != len(rows_) or not rows_ or any(m_ not in mv for m_, _ in rows_):
            note("%s: ladder not recognised" % fn)
            return None
        return [(mv[m_], c_unescape(n)) for m_, n in rows_]
    n0 = len(notes)
    v["fac_to_int"] = to_int_table("snoopy_util_syslog_convertFacilityToInt", "SNOOPY_SYSLOG_FACILITY")
    v["lvl_to_int"] = to_int_table("snoopy_util_syslog_convertLevelToInt", "SNOOPY_SYSLOG_LEVEL")
    v["fac_to_str"] = to_str_table(f2s, fcnt, "convertFacilityToStr")
    v["lvl_to_str"] = to_str_table(l2s, lcnt, "convertLevelToStr")
    v["syslog_invalid"] = finv if finv is not None and finv == linv else None
    if None in (v["fac_to_int"], v["lvl_to_int"], v["fac_to_str"], v["lvl_to_str"], v["syslog_invalid"]):
        # a ladder was rewritten (switch, table + loop, ...): read the four functions by running util/syslog.c itself.
        # Candidate names: every upper-case string literal of the file and every documented name; codes 0..1023 for the reverse direction.
        cand = sorted(set(re.findall(r'"([A-Z][A-Z0-9]*)"', sy)) | set(re.findall(r"\b(?:AUTH|AUTHPRIV|CRON|DAEMON|FTP|KERN|LOCAL[0-7]|LPR|MAIL|NEWS|SYSLOG|USER|UUCP|EMERG|ALERT|CRIT|ERR|WARNING|NOTICE|INFO|DEBUG)\b", run.src("etc/snoopy.ini.in"))))
        prog = '#include "%s"\n#include <stdio.h>\nstatic const char *N[] = {%s, 0};\n' % (os.path.join(run.tree, "src/util/syslog.c"), ", ".join('"%s"' % c_ for c_ in cand)) + """
static void hx(const char *s){ for (; *s; s++) printf("%02x", (unsigned char)*s); }
int main(void){ char buf[64];
  printf("U %d %d\\n", snoopy_util_syslog_convertFacilityToInt("\\001nonsense"), snoopy_util_syslog_convertLevelToInt("\\001nonsense"));
  printf("I "); hx(snoopy_util_syslog_convertFacilityToStr(-12345)); printf(" "); hx(snoopy_util_syslog_convertLevelToStr(-12345)); printf("\\n");
  for (int i = 0; N[i]; i++) { printf("N %s", N[i]);
    const char *pre[] = {"", "LOG_", "LOG_LOG_", "XYZ_", "LOG"};
    for (int k = 0; k < 5; k++) { snprintf(buf, sizeof buf, "%s%s", pre[k], N[i]); printf(" %d %d", snoopy_util_syslog_convertFacilityToInt(buf), snoopy_util_syslog_convertLevelToInt(buf)); }
    snprintf(buf, sizeof buf, "%sX", N[i]); printf(" %d %d", snoopy_util_syslog_convertFacilityToInt(buf), snoopy_util_syslog_convertLevelToInt(buf));
    snprintf(buf, sizeof buf, "%s", N[i]); buf[strlen(buf)-1] = 0; printf(" %d %d", snoopy_util_syslog_convertFacilityToInt(buf), snoopy_util_syslog_convertLevelToInt(buf));
    snprintf(buf, sizeof buf, "%s", N[i]); buf[0] |= 0x20; printf(" %d %d\\n", snoopy_util_syslog_convertFacilityToInt(buf), snoopy_util_syslog_convertLevelToInt(buf)); }
  for (int c = 0; c < 1024; c++) { printf("S %d ", c); hx(snoopy_util_syslog_convertFacilityToStr(c)); printf(" "); hx(snoopy_util_syslog_convertLevelToStr(c)); printf("\\n"); }
  return 0; }"""
        out = probe(run, prog, "syslog")
        dfl = cc_eval(run, [("f", "i", "SNOOPY_SYSLOG_FACILITY"), ("l", "i", "SNOOPY_SYSLOG_LEVEL")], ["syslog.h", '"snoopy.h"'])
        if out and "f" in dfl:
            unk = inv = None
            names_, strs_ = {}, []
            for l_ in out:
                f_ = l_.split(" ")
                if f_[0] == "U":
                    unk = (int(f_[1]), int(f_[2]))
                elif f_[0] == "I":
                    inv = (bytes.fromhex(f_[1]), bytes.fromhex(f_[2]))
                elif f_[0] == "N":
                    names_[f_[1]] = list(map(int, f_[2:]))
                elif f_[0] == "S":
                    strs_.append((int(f_[1]), bytes.fromhex(f_[2]), bytes.fromhex(f_[3])))
            ok_ = unk is not None and inv is not None and inv[0] == inv[1] and unk[0] in (-1, dfl["f"]) and unk[1] in (-1, dfl["l"])
            if ok_:
                tabs = {}
                for col, key_i, key_s in ((0, "fac_to_int", "fac_to_str"), (1, "lvl_to_int", "lvl_to_str")):
                    tstr = [(c_, (a_, b_)[col]) for c_, a_, b_ in strs_ if (a_, b_)[col] != inv[col]]
                    back = dict((n_, c_) for c_, n_ in tstr)
                    tint, pref_seen = [], set()
                    for n_ in cand:
                        r_ = names_.get(n_)
                        if not r_:
                            continue
                        plain = r_[col]
                        # a name of the table: not the unknown answer, or the unknown answer happens to be its own code
                        if plain == unk[col] and back.get(n_.encode()) != plain:
                            continue
                        # exact match only: NAMEX, NAM, nAME, XYZ_NAME, LOGNAME, LOG_LOG_NAME are not names (unless listed themselves)
                        variants = [r_[2 * k + col] for k in (2, 3, 4, 5, 6, 7)]
                        labels = ["LOG_LOG_" + n_, "XYZ_" + n_, "LOG" + n_, n_ + "X", n_[:-1], n_[0].lower() + n_[1:]]
                        if any(val != unk[col] and lab not in cand for val, lab in zip(variants, labels)):
                            ok_ = False
                        pref_seen.add(r_[2 + col] == plain)
                        tint.append((n_.encode(), plain))
                    tabs[key_i], tabs[key_s] = tint, tstr
                    if len(pref_seen) != 1:
                        ok_ = False
                    tabs["strip%d" % col] = pref_seen == {True}
                if ok_ and tabs["strip0"] == tabs["strip1"]:
                    for k_ in ("fac_to_int", "fac_to_str", "lvl_to_int", "lvl_to_str"):
                        v[k_] = tabs[k_] or None
                    v["syslog_invalid"] = inv[0]
                    del notes[n0:]
                    note("util/syslog.c ladders read by evaluation of the four functions (textual form not an if/else-if ladder)")
                    if v.get("util_strips") is None or v["util_strips"] != tabs["strip0"]:
                        if v.get("util_strips") is None:
                            v["util_strips"] = tabs["strip0"]
                            if tabs["strip0"] and v.get("log_prefix") is None:
                                v["log_prefix"] = b"LOG_"
                        else:
                            note("util/syslog.c: prefix handling read from the text and observed by evaluation disagree")
                            v["util_strips"] = None

    # ---------------------------------------------------------------- util/parser.c
    pa = strip_comments(run.src("src/util/parser.c"))
    lb = func_body(pa, "snoopy_util_parser_strByteLength") or ""
    def eq_(x, y):
        return r"(?:%s\s*==\s*%s|%s\s*==\s*%s)" % (x, y, y, x)
    shape, fm, CUR = False, None, None
    mc = re.search(r"isdigit\s*\(\s*\(\s*unsigned\s+char\s*\)\s*\*\s*(\w+)\s*\)", lb)
    if mc:
        CUR = mc.group(1)
        step = r"if\s*\(\s*(\w+)\s*<=\s*valMax\s*\)\s*\{\s*\1\s*=\s*\1\s*\*\s*10\s*\+\s*\(\s*\*\s*%s\s*-\s*'0'\s*\)\s*;\s*\}" % CUR
        dig = r"isdigit\s*\(\s*\(\s*unsigned\s+char\s*\)\s*\*\s*%s\s*\)" % CUR
        lw = re.search(r"while\s*\(\s*" + dig + r"\s*\)\s*\{\s*" + step + r"\s*%s\+\+\s*;\s*\}" % CUR, lb)
        lf = re.search(r"for\s*\(\s*(?:%s\s*=\s*numberAsText)?\s*;\s*" % CUR + dig + r"\s*;\s*(?:%s\+\+|\+\+%s)\s*\)\s*\{\s*" % (CUR, CUR) + step + r"\s*\}", lb)
        loop = lw or lf
        init = re.search(r"\b%s\s*=\s*numberAsText\s*[;]" % CUR, lb)
        if loop and init and init.start() < loop.end():
            NUM = loop.group(1)
            tail = lb[loop.end():]
            mz = re.match(r"\s*if\s*\(\s*" + eq_(NUM, "0") + r"\s*\)\s*\{\s*return\s+valDefault\s*;\s*\}", tail)
            mr = re.search(r"\b(\w+)\s*=\s*%s\s*\*\s*(\w+)\s*;\s*if\s*\(\s*\1\s*<\s*valMin\s*\)\s*\{?\s*\1\s*=\s*valMin\s*;\s*\}?\s*if\s*\(\s*\1\s*>\s*valMax\s*\)\s*\{?\s*\1\s*=\s*valMax\s*;\s*\}?\s*return\s*\(\s*int\s*\)\s*\1\s*;\s*$" % NUM, tail.rstrip())
            if mz and mr:
                RES, FAC = mr.group(1), mr.group(2)
                decl = (re.search(r"long\s+long\s+%s\s*=\s*0\s*;" % NUM, lb) and re.search(r"long\s+long\s+%s\s*=\s*1\s*;" % FAC, lb)
                        and re.search(r"long\s+long\s+%s\s*;" % RES, lb))
                one = r"\(?\s*" + eq_(r"\*\s*%s" % CUR, r"'\\?.'") + r"\s*\)?"
                cond_ = r"((?:" + one + r"\s*(?:\|\|)?\s*)+)"
                between = tail[mz.end():mr.start()]
                fm = re.fullmatch(r"\s*if\s*\(\s*" + cond_ + r"\)\s*\{\s*%s\s*=\s*([^;]+);\s*\}\s*else\s+if\s*\(\s*" % FAC + cond_ + r"\)\s*\{\s*%s\s*=\s*([^;]+);\s*\}\s*" % FAC, between, re.S)
                # nothing else may write the three locals
                writes = len(re.findall(r"\b(?:%s|%s|%s)\s*(?:[-+*/]?=)(?!=)" % (NUM, FAC, RES), lb))
                shape = bool(decl and fm and writes == 2 + 3 + 3)
    if not shape:
        note("strByteLength: saturating digit loop / zero fallback / suffix ladder / min-max clamp not recognised")
        fm = None
    v["len_saturating"] = shape

    def suffixes(cond):
        out = bytearray()
        for p in cond.split("||"):
            mm = re.fullmatch(r"\(?\s*(?:\*\s*\w+\s*==\s*'(\\?.)'|'(\\?.)'\s*==\s*\*\s*\w+)\s*\)?", p.strip())
            if not mm:
                return None
            out += c_unescape(mm.group(1) or mm.group(2))
        return bytes(out)
    if fm:
        v["suffix_k"], v["suffix_m"] = suffixes(fm.group(1)), suffixes(fm.group(3))
        fv = cc_eval(run, [("fk", "i", fm.group(2)), ("fm", "i", fm.group(4))], [])
        v["factor_k"], v["factor_m"] = fv.get("fk"), fv.get("fm")
    else:
        v["suffix_k"] = v["suffix_m"] = v["factor_k"] = v["factor_m"] = None
    # which limits each option hands to the parser
    lim = {}
    for opt, field, pfx in (("datasource_message_max_length", "datasource_message_max_length", "ds"), ("log_message_max_length", "log_message_max_length", "log")):
        b = func_body(cf, "snoopy_configfile_parseValue_" + opt) or ""
        m = re.search(r"CFG->%s\s*=\s*snoopy_util_parser_strByteLength\s*\(\s*confValString\s*,\s*([A-Z_0-9]+)\s*,\s*([A-Z_0-9]+)\s*,\s*([A-Z_0-9]+)\s*\)" % field, b)
        gb_ = func_body(cf, "snoopy_configfile_getOptionValueAsString_" + opt) or ""
        gm = re.search(r'snprintf\s*\(\s*strBuf\s*,\s*strBufSize\s*,\s*"%%zu"\s*,\s*CFG->%s\s*\)' % field, gb_)
        if m and gm:
            lim[pfx] = m.groups()
        else:
            note("length option %s: parser call or %%zu rendering not recognised" % opt)
    ev = cc_eval(run, [("%s_%s" % (p, n), "i", e) for p, t in lim.items() for n, e in zip(("min", "max", "def"), t)], ["limits.h", '"snoopy.h"'])
    for p in ("ds", "log"):
        for n in ("min", "max"):
            v["%s_%s" % (p, n)] = ev.get("%s_%s" % (p, n))

    # ---------------------------------------------------------------- defaults (configuration.c as preprocessed)
    cpp_ = preprocess(run, "src/configuration.c")
    db = func_body(cpp_, "snoopy_configuration_setDefaults") or ""
    assigns = dict((k, e.strip()) for k, e in re.findall(r"CFG->(\w+)\s*=\s*([^;]+);", db))
    ints = cc_eval(run, [(k, "i", assigns[k]) for k in ("error_logging_enabled", "syslog_facility", "syslog_level", "datasource_message_max_length", "log_message_max_length") if k in assigns], ["syslog.h"])
    v["d_error_logging"] = (ints["error_logging_enabled"] != 0) if "error_logging_enabled" in ints else None
    v["d_facility"] = ints.get("syslog_facility")
    v["d_level"] = ints.get("syslog_level")
    v["ds_def"] = ints.get("datasource_message_max_length")
    v["log_def"] = ints.get("log_message_max_length")
    # the default handed to the length parser must be the compiled-in default
    for p in ("ds", "log"):
        if ev.get(p + "_def") is None or ev.get(p + "_def") != v[p + "_def"]:
            note("%s length default: parser fallback and setDefaults disagree" % p)
            v[p + "_def"] = None
    for k, f in (("d_message_format", "message_format"), ("d_filter_chain", "filter_chain"), ("d_output", "output"), ("d_output_arg", "output_arg"), ("d_ident", "syslog_ident_format")):
        v[k] = cstrings(assigns[f]) if f in assigns else None
    # the syslog parsers' fallback and the unknown-output fallback are the same macros
    fb = cc_eval(run, [("f", "i", "SNOOPY_SYSLOG_FACILITY"), ("l", "i", "SNOOPY_SYSLOG_LEVEL"), ("o", "s", "SNOOPY_OUTPUT_DEFAULT"), ("a", "s", "SNOOPY_OUTPUT_DEFAULT_ARG")], ["syslog.h", '"snoopy.h"'])
    if fb.get("f") != v["d_facility"] or fb.get("l") != v["d_level"] or fb.get("o") != v["d_output"] or fb.get("a") != v["d_output_arg"]:
        note("fallback macros and setDefaults disagree")
        v["d_facility"] = None
    if not re.search(r"\}\s*else\s*\{\s*CFG->output\s*=\s*SNOOPY_OUTPUT_DEFAULT\s*;\s*CFG->output_malloced\s*=\s*SNOOPY_FALSE\s*;\s*CFG->output_arg\s*=\s*SNOOPY_OUTPUT_DEFAULT_ARG\s*;", ob):
        note("parseValue_output: unknown-name fallback not recognised")
        v["d_output"] = None

    # ---------------------------------------------------------------- action-conf.c
    ac = strip_comments(run.src("src/cli/action-conf.c"))
    ab = func_body(ac, "snoopy_cli_action_conf") or ""
    fmts = [c_unescape(x) for x in re.findall(r"printf\s*\(\s*" + STR, ab)]
    v["conf_header"] = v["conf_section"] = v["conf_assign"] = v["conf_quote"] = v["conf_cont"] = v["conf_cont_sep"] = v["conf_cont_ws"] = v["conf_cont_marks"] = None
    if len(fmts) >= 3 and fmts[0].endswith(b"%s\n") and fmts[0].count(b"%") == 1 and fmts[1].endswith(b"\n") and b"%" not in fmts[1]:
        v["conf_header"] = fmts[0][:-3]
        v["conf_section"] = fmts[1][:-1]
        opt_fmts = fmts[2:]
        plain = [f for f in opt_fmts if re.fullmatch(rb"%s([ =]+)%s\n", f)]
        quoted = [f for f in opt_fmts if re.fullmatch(rb'%s([ =]+)"%s"\n', f)]
        cont = [f for f in opt_fmts if re.fullmatch(rb"%s[ ]*=\n[ \t]+%s\n", f)]
        ELEM = r"(?:optionRegistry\s*\[\s*\w+\s*\]\s*\.|\w+\s*->\s*)"          # optionRegistry[i].  or  option->
        typed = bool(re.search(r"if\s*\(\s*(?:" + ELEM + r"data\.type\s*==\s*SNOOPY_CONFIGFILE_OPTION_TYPE_STRING|SNOOPY_CONFIGFILE_OPTION_TYPE_STRING\s*==\s*" + ELEM + r"data\.type)\s*\)", ab))
        if len(plain) == 1 and len(plain) + len(quoted) + len(cont) == len(opt_fmts) and len(quoted) <= 1 and len(cont) <= 1:
            asg = re.fullmatch(rb"%s([ =]+)%s\n", plain[0]).group(1)
            if quoted and (not typed or re.fullmatch(rb'%s([ =]+)"%s"\n', quoted[0]).group(1) != asg):
                note("action-conf.c: quoted form not recognised")
            elif cont and not (quoted and re.search(r"snoopy_cli_conf_valueNeedsContinuationLine\s*\(\s*optionValue\s*\)", ab)):
                note("action-conf.c: continuation form not recognised")
            else:
                v["conf_assign"] = asg
                v["conf_quote"] = bool(quoted)
                v["conf_cont"] = bool(cont)
                v["conf_cont_sep"] = cont[0][2:-3] if cont else b""
                v["conf_cont_ws"], v["conf_cont_marks"] = b"", b""
                if cont:
                    # which bytes the helper takes for whitespace (isspace / isblank / explicit comparisons) and which mark it looks for
                    hb = func_body(ac, "snoopy_cli_conf_valueNeedsContinuationLine") or ""
                    ws_, mark_ = None, None
                    for cur_, nxt_, loop_re in (
                            (r"value\s*\[\s*i\s*\]", r"value\s*\[\s*i\s*\+\s*1\s*\]", r"for\s*\(\s*size_t\s+i\s*=\s*0\s*;\s*value\s*\[\s*i\s*\]\s*!=\s*'\\0'\s*;\s*i\+\+\s*\)"),
                            (r"\*\s*(?P<p>\w+)", r"(?:(?P=p)\s*\[\s*1\s*\]|\*\s*\(\s*(?P=p)\s*\+\s*1\s*\))", r"for\s*\(\s*const\s+char\s*\*\s*(\w+)\s*=\s*value\s*;\s*\*\s*\1\s*(?:!=\s*'\\0'\s*)?;\s*\1\+\+\s*\)")):
                        m_ = re.search(r"if\s*\(\s*(?P<t>.+?)\s*&&\s*" + nxt_.replace("(?P=p)", r"\w+") + r"\s*==\s*'(?P<m>\\?.)'\s*\)\s*\{\s*return\s+1\s*;", hb, re.S)
                        if not (m_ and re.search(loop_re, hb) and len(re.findall(r"\bif\b", hb)) == 1 and re.search(r"\}\s*return\s+0\s*;\s*$", hb.strip())):
                            continue
                        t_ = m_.group("t").strip()
                        cur_plain = cur_.replace("(?P<p>\\w+)", r"\w+")
                        cm_ = re.fullmatch(r"(isspace|isblank)\s*\(\s*\(\s*unsigned\s+char\s*\)\s*" + cur_plain + r"\s*\)", t_)
                        if cm_:
                            ws_ = b" \t\n\v\f\r" if cm_.group(1) == "isspace" else b" \t"
                        else:
                            parts_ = [x.strip() for x in t_.strip("()").split("||")]
                            cs_ = [re.fullmatch(r"\(?\s*" + cur_plain + r"\s*==\s*'(\\?.)'\s*\)?", x) for x in parts_]
                            if all(cs_):
                                ws_ = b"".join(c_unescape(x.group(1)) for x in cs_)
                        if ws_ is not None:
                            mark_ = c_unescape(m_.group("m"))
                            break
                    if ws_ is None:
                        # any other loop shape: run the helper on every (byte, following byte) pair
                        fd = func_def(ac, "snoopy_cli_conf_valueNeedsContinuationLine", "static int")
                        out = probe(run, "#include <ctype.h>\n#include <stddef.h>\n#include <string.h>\n#include <stdio.h>\n" + (fd or "#error\n") + """
int main(void){ char b[8]; int (*h)(const char * const) = snoopy_cli_conf_valueNeedsContinuationLine;
  for (int w = 1; w < 256; w++) for (int m = 1; m < 256; m++) { if (w == m) continue;
      b[0]='a'; b[1]=(char)w; b[2]=(char)m; b[3]='z'; b[4]=0; int mid = h(b);
      b[0]=(char)w; b[1]=(char)m; b[2]='z'; b[3]=0; int start = h(b);
      b[0]='a'; b[1]='b'; b[2]=(char)w; b[3]=(char)m; b[4]=0; int end = h(b);
      if (mid != start || mid != end) { printf("X\\n"); return 0; }
      if (mid) printf("%d %d\\n", w, m); }
  b[0]=';'; b[1]='a'; b[2]=0; printf("E %d %d %d\\n", h(b), h(""), h("a;b")); return 0; }""", "conthelper") if fd else None
                        if out and out[-1] == "E 0 0 0" and "X" not in out:
                            pairs_ = [tuple(map(int, l.split())) for l in out[:-1]]
                            wset, mset = sorted(set(a_ for a_, _ in pairs_)), sorted(set(b_ for _, b_ in pairs_))
                            if pairs_ and len(pairs_) == len([1 for a_ in wset for b_ in mset if a_ != b_]):
                                ws_, mark_ = bytes(wset), bytes(mset)
                                note("action-conf.c: continuation test read by evaluation of the helper on every byte pair")
                    if ws_ is None:
                        note("action-conf.c: continuation test not recognised")
                        v["conf_cont"] = None
                    else:
                        v["conf_cont_ws"], v["conf_cont_marks"] = ws_, mark_
    if v["conf_assign"] is None:
        note("action-conf.c print formats not recognised")
    walk_i = re.search(r'for\s*\(\s*int\s+(\w+)\s*=\s*0\s*;\s*0\s*!=\s*strcmp\s*\(\s*optionRegistry\s*\[\s*\1\s*\]\s*\.name\s*,\s*""\s*\)\s*;\s*\1\+\+\s*\)', ab)
    walk_p = re.search(r'for\s*\(\s*(?:const\s+)?snoopy_configfile_option_t\s*(?:const\s*)?\*\s*(\w+)\s*=\s*optionRegistry\s*;\s*0\s*!=\s*strcmp\s*\(\s*\1\s*->\s*name\s*,\s*""\s*\)\s*;\s*\1\+\+\s*\)', ab)
    if not (walk_i or walk_p):
        note("action-conf.c: registry walk not recognised")
        v["conf_assign"] = None

    # ---------------------------------------------------------------- etc/snoopy.ini.in (the documentation)
    doc = run.src("etc/snoopy.ini.in")
    v["doc_options"] = sorted(set(x.encode() for x in re.findall(r"^;([a-z_]+) = ", doc, re.M)))

    def doc_names(after):
        i = doc.find(after)
        m_ = re.search(r"One of ([A-Z0-9|\[\]-]+)", doc[i:]) if i >= 0 else None
        if not m_:
            return None
        out = []
        for n in m_.group(1).split("|"):
            mm = re.fullmatch(r"([A-Z]+)\[(\d)-(\d)\]", n)
            out += ["%s%d" % (mm.group(1), k) for k in range(int(mm.group(2)), int(mm.group(3)) + 1)] if mm else [n]
        return out
    for key, after in (("doc_fac", ";;; Syslog Facility"), ("doc_lvl", ";;; Syslog Level")):
        names_ = doc_names(after)
        vals = cc_eval(run, [(n, "i", "LOG_" + n) for n in names_], ["syslog.h"]) if names_ else {}
        v[key] = [(n.encode(), vals[n]) for n in names_] if names_ and all(n in vals for n in names_) else None
    for pfx, after in (("doc_ds", ";;; Maximum individual data source"), ("doc_log", ";;; Maximum formatted log message")):
        i = doc.find(after)
        sec = doc[i:i + 1200] if i >= 0 else ""
        m_ = re.search(r"Between (\d+) and (\d+)", sec)
        d_ = re.search(r"Default value:\s*\n;\s*(\d+)", sec)
        v[pfx + "_min"] = int(m_.group(1)) if m_ else None
        v[pfx + "_max"] = int(m_.group(2)) if m_ else None
        v[pfx + "_def"] = int(d_.group(1)) if d_ else None

    return emit_config(run, v)


# -------------------------------------------------------------------------------------------------- emission
BYTES_FIELDS = ["ini_start_comment", "ini_inline_comment", "section_name", "bool_true", "bool_false", "bool_yes", "bool_no", "log_prefix",
                "syslog_invalid", "suffix_k", "suffix_m", "d_message_format", "d_filter_chain", "d_output", "d_output_arg", "d_ident",
                "conf_header", "conf_section", "conf_assign", "conf_cont_sep", "conf_cont_ws", "conf_cont_marks"]
NUM_FIELDS = ["doc_ds_min", "doc_ds_max", "doc_ds_def", "doc_log_min", "doc_log_max", "doc_log_def", "ini_max_line", "ini_max_section", "ini_max_name", "factor_k", "factor_m", "d_facility", "d_level",
              "ds_min", "ds_max", "ds_def", "log_min", "log_max", "log_def"]
BOOL_FIELDS = ["ini_flags_ok", "cfg_strips", "util_strips", "len_saturating", "d_error_logging", "conf_quote", "conf_cont"]
ORDER = ["ini_max_line", "ini_max_section", "ini_max_name", "ini_start_comment", "ini_inline_comment", "ini_flags_ok", "section_name", "options",
         "bool_true", "bool_false", "bool_yes", "bool_no", "log_prefix", "cfg_strips", "util_strips", "output_sep", "output_names",
         "fac_to_int", "fac_to_str", "lvl_to_int", "lvl_to_str", "syslog_invalid", "len_saturating", "suffix_k", "factor_k", "suffix_m", "factor_m",
         "d_error_logging", "d_message_format", "d_filter_chain", "d_output", "d_output_arg", "d_facility", "d_ident", "d_level",
         "ds_min", "ds_max", "ds_def", "log_min", "log_max", "log_def", "conf_header", "conf_section", "conf_assign", "conf_quote", "conf_cont", "conf_cont_sep", "conf_cont_ws", "conf_cont_marks",
         "doc_options", "doc_fac", "doc_lvl", "doc_ds_min", "doc_ds_max", "doc_ds_def", "doc_log_min", "doc_log_max", "doc_log_def"]


def emit_config(run, v):
    """Unrecognised values (None) become values that make config_consts_ok false (0, [], false; ini_flags_ok := false)."""
    bad = [k for k in ORDER if v.get(k) is None]
    for k in bad:
        run.notes.append("translator: could not read config.%s from the source" % k)
    if bad:
        v["ini_flags_ok"] = False          # one unrecognised piece is enough to break gen_ok
    fields, tsv, js = [], [], {}
    for k in ORDER:
        x = v.get(k)
        if k in BYTES_FIELDS:
            x = b"" if x is None else x
            fields.append("%s := %s" % (k, coq_bytes(x)))
            tsv.append("%s\t%s" % (k, hexs(x)))
            js[k] = x.hex()
        elif k in NUM_FIELDS:
            x = 0 if x is None else x
            fields.append("%s := %d%%N" % (k, x))
            tsv.append("%s\t%d" % (k, x))
            js[k] = x
        elif k in BOOL_FIELDS:
            x = bool(x)
            fields.append("%s := %s" % (k, "true" if x else "false"))
            tsv.append("%s\t%d" % (k, 1 if x else 0))
            js[k] = x
        elif k == "output_sep":
            x = 0 if x is None else x
            fields.append("%s := x%02x" % (k, x))
            tsv.append("%s\t%s" % (k, hexs(bytes([x]))))
            js[k] = x
        elif k == "options":
            x = x or []
            fields.append("options := [" + "; ".join("{| row_name := %s; row_type := %s; row_parse := %s; row_render := %s |}" % (coq_bytes(r["name"]), r["type"], r["parse"], r["render"]) for r in x) + "]")
            tsv.append("options\t" + (",".join("%s:%s:%s:%s" % (hexs(r["name"]), r["type"], r["parse"], r["render"]) for r in x) or "[]"))
            js[k] = [{"name": r["name"].decode("latin1"), "type": r["type"], "parse": r["parse"], "render": r["render"]} for r in x]
        elif k in ("output_names", "doc_options"):
            x = x or []
            fields.append(k + " := [" + "; ".join(coq_bytes(n) for n in x) + "]")
            tsv.append(k + "\t" + (",".join(hexs(n) for n in x) or "[]"))
            js[k] = [n.decode("latin1") for n in x]
        elif k in ("fac_to_int", "lvl_to_int", "doc_fac", "doc_lvl"):
            x = x or []
            fields.append("%s := [%s]" % (k, "; ".join("(%s, %d%%N)" % (coq_bytes(n), val) for n, val in x)))
            tsv.append("%s\t%s" % (k, ",".join("%s:%d" % (hexs(n), val) for n, val in x) or "[]"))
            js[k] = [[n.decode("latin1"), val] for n, val in x]
        elif k in ("fac_to_str", "lvl_to_str"):
            x = x or []
            fields.append("%s := [%s]" % (k, "; ".join("(%d%%N, %s)" % (val, coq_bytes(n)) for val, n in x)))
            tsv.append("%s\t%s" % (k, ",".join("%d:%s" % (val, hexs(n)) for val, n in x) or "[]"))
            js[k] = [[val, n.decode("latin1")] for val, n in x]
    text = ("(* GENERATED from the current /repo working tree by vlib/tr_config.py -- do not edit *)\n"
            "From Snoopy Require Import Lib.CStr Config.Model.\n"
            "Definition consts : config_consts :=\n  {| %s |}.\n" % ";\n     ".join(fields))
    run.write_gen("Gen_Config.v", text)
    json.dump(js, open(os.path.join(run.scratch, "consts_config.json"), "w"), indent=1)
    open(os.path.join(run.scratch, "consts_config.tsv"), "w").write("\n".join(tsv) + "\n")
    run.consts["config"] = js
    return js
