"""Translator for area DsTruth (C12): for every data source bound in the registry, what it asks the
operating system and how it prints the answer.

AST level (clang -ast-dump=json): the body of the function the registry binds to a name is executed
*symbolically* (straight-line code, if/else, early returns, calls into helper functions of the tree are
inlined, out-parameters of the libc calls are tracked) into a decision tree

    dtree ::= TRet ret buf | TIf cond then else | TOther why

over symbolic values `sx` (ECall f args = value returned by an external call, EOut f args i = what the call
stored through its i-th pointer argument, EFmt cap fmt args = what snprintf stored, ECast, EOp, ...).  Gen_Ds.v
holds the table name -> (function symbol, external calls, tree).  Bodies with loops/goto (env_all, cmdline,
cgroup, rpname, domain) become TOther "loop"; their constants are read separately (T1, regex) into the
record `ds_consts`.  Anything not understood becomes EUnknown/TOther, which the expected table of
DsTruth/Model.v does not contain, so `ds_consts_ok` is false for that source.

Regex level (cross-check): format literals printed into resultBuf and the external functions called, per
function, must agree with what the AST walk saw; a disagreement is reported and marks the entry unrecognised.
"""
import json, os, re, subprocess
from .core import CheckError, coq_bytes
from .translate import strip_comments, func_body, c_unescape, cpp_value, STR, reachable_body
from .skel import clang_ast, functions, strip

# ------------------------------------------------------------------------------------------------ registry
def registry(run):
    """names and bound function symbols of the data source registry as the compiler sees them (gcc -E)."""
    p = subprocess.run(["gcc", "-E", "-P", "-DHAVE_CONFIG_H", "-I" + run.tree, "-I" + os.path.join(run.tree, "src"),
                        os.path.join(run.tree, "src/datasourceregistry.c")], stdout=subprocess.PIPE, stderr=subprocess.PIPE, text=True)
    if p.returncode != 0:
        raise CheckError("gcc -E failed on datasourceregistry.c: " + p.stderr[-1000:])
    txt = p.stdout
    m1 = re.search(r"snoopy_datasourceregistry_names\s*\[\s*\]\s*=\s*\{(.*?)\}\s*;", txt, re.S)
    # declared with the function type spelled out, or through a typedef of it
    m2 = re.search(r"snoopy_datasourceregistry_ptrs\s*\[\s*\]\s*(?:\)\s*\([^)]*\)\s*)?=\s*\{(.*?)\}\s*;", txt, re.S)
    if not (m1 and m2):
        run.notes.append("translator: the data source registry arrays were not recognised in datasourceregistry.c (no entry can be bound)")
        return []
    names = [c_unescape(x).decode() for x in re.findall(STR, m1.group(1))]
    ptrs = [x.strip() for x in m2.group(1).split(",") if x.strip()]
    if names and names[-1] == "":
        names = names[:-1]
    if len(names) != len(ptrs):
        run.notes.append("translator: data source registry arrays have different lengths (%d names, %d functions)" % (len(names), len(ptrs)))
    return list(zip(names, ptrs))


# ------------------------------------------------------------------------------------------------ symbolic values
# sx terms are tuples: ("call", f, [args]) ("out", f, [args], i) ("int", z) ("str", bytes) ("arg",) ("size",) ("buf0",)
# ("cast", signed, bits, e) ("op", name, [args]) ("fmt", cap, fmt, [args]) ("ret", cap, fmt, [args]) ("field", e, name)
# ("ids", field) ("errno", f, [args]) ("unknown", why);  python-only: ("ptr", cell)
INT_TYPES = {"char": (True, 8), "signed char": (True, 8), "unsigned char": (False, 8), "short": (True, 16), "unsigned short": (False, 16),
             "int": (True, 32), "unsigned int": (False, 32), "long": (True, 64), "unsigned long": (False, 64),
             "long long": (True, 64), "unsigned long long": (False, 64), "_Bool": (False, 8)}

# external functions: positions of pointer arguments written by the call, positions ignored (scratch space and its size)
OUTS = {"getpwuid_r": ([1, 4], [2, 3]), "getgrgid_r": ([1, 4], [2, 3]), "ttyname_r": ([1], []), "gethostname": ([0], []),
        "getcwd": ([0], []), "gettimeofday": ([0], []), "getlogin_r": ([0], []), "stat": ([1], []), "time": ([0], []),
        "localtime_r": ([1], []), "strftime": ([0], [])}
PURE = {"strlen", "strcmp", "strncmp", "strcpy", "strncpy", "atoi"}
IGNORED = {"free"}


class Loop(Exception):
    pass


def qtype(n):
    t = n.get("type", {})
    return t.get("desugaredQualType") or t.get("qualType") or ""


def int_type(n):
    t = qtype(n).replace("const ", "").replace("volatile ", "").strip()
    return INT_TYPES.get(t)


class Sym:
    def __init__(self, tr, fname):
        self.tr = tr
        self.calls = []
        self.cells = 0
        self.depth = 0
        self.fname = fname

    def fresh(self, hint):
        self.cells += 1
        return "%s#%d" % (hint, self.cells)

    # ---------------------------------------------------------------- expressions (CPS: k(env, value) -> tree)
    def rval(self, env, v):
        """a pointer to a local cell used as a string / struct value"""
        if isinstance(v, tuple) and v[0] == "ptr":
            return env.get(v[1], ("unknown", "uninitialised " + v[1].split("#")[0]))
        return v

    def expr(self, n, env, k):
        kind = n.get("kind")
        if kind in ("ParenExpr", "ConstantExpr"):
            return self.expr(n["inner"][0], env, k)
        if kind == "ImplicitCastExpr" or kind == "CStyleCastExpr":
            ck = n.get("castKind")
            sub = n["inner"][0]
            if ck == "NullToPointer":
                return k(env, ("int", 0))
            if ck == "IntegralCast":
                dst, src = int_type(n), int_type(sub)

                def kc(env, v, dst=dst, src=src):
                    if v[0] == "int" and dst:
                        z = v[1] % (1 << dst[1])
                        if dst[0] and z >= (1 << (dst[1] - 1)):
                            z -= 1 << dst[1]
                        return k(env, ("int", z))
                    if dst is None or src is None:
                        return k(env, ("unknown", "cast to " + qtype(n)))
                    if dst == src:
                        return k(env, v)
                    return k(env, ("cast", dst[0], dst[1], v))
                return self.expr(sub, env, kc)
            if ck in ("LValueToRValue", "NoOp", "FunctionToPointerDecay", "BitCast", "ArrayToPointerDecay", "PointerToBoolean",
                      "IntegralToBoolean", "ToVoid", "PointerToIntegral", "IntegralToPointer"):
                return self.expr(sub, env, k)
            return k(env, ("unknown", "cast " + str(ck)))
        if kind == "IntegerLiteral":
            return k(env, ("int", int(n.get("value", "0"))))
        if kind == "CharacterLiteral":
            return k(env, ("int", int(n.get("value", 0))))
        if kind == "StringLiteral":
            v = n.get("value", '""')
            try:
                s = json.loads(v)
                b = s.encode("latin-1")
            except Exception:
                b = c_unescape(v[1:-1])
            return k(env, ("str", b))
        if kind == "DeclRefExpr":
            rd = n.get("referencedDecl", {})
            name = rd.get("name", "?")
            if rd.get("kind") == "ParmVarDecl" or rd.get("kind") == "VarDecl":
                key = self.scope + name
                if key in env:
                    return k(env, env[key])
                if rd.get("kind") == "VarDecl" and name == "environ":
                    return k(env, ("op", "environ", []))
                return k(env, ("unknown", "variable " + name))
            if rd.get("kind") == "EnumConstantDecl":
                return k(env, ("unknown", "enum " + name))
            return k(env, ("unknown", "ref " + name))
        if kind == "UnaryOperator":
            op = n.get("opcode")
            sub = n["inner"][0]
            if op == "&":
                s = strip(sub)
                if s.get("kind") == "DeclRefExpr":
                    key = self.scope + s["referencedDecl"]["name"]
                    cur = env.get(key)
                    if isinstance(cur, tuple) and cur[0] == "ptr" and cur[1] == key + "$obj":
                        return k(env, cur)
                    return k(env, ("ptr", key))
                if s.get("kind") == "MemberExpr":
                    return self.expr(s, env, lambda env, v: k(env, ("op", "addr", [v])))
                return k(env, ("unknown", "address-of"))
            if op == "*":
                s = strip(sub)
                if s.get("kind") == "CallExpr" and strip(s["inner"][0]).get("referencedDecl", {}).get("name") == "__errno_location":
                    return k(env, env.get("$errno", ("unknown", "errno before any call")))
                return self.expr(sub, env, lambda env, v: k(env, self.rval(env, v) if v[0] == "ptr" else ("op", "deref", [v])))
            if op == "-":
                return self.expr(sub, env, lambda env, v: k(env, ("int", -v[1]) if v[0] == "int" else ("op", "neg", [v])))
            if op == "!":
                return self.expr(sub, env, lambda env, v: k(env, self.cmp("==", self.rval_ptr(env, v), ("int", 0))))
            return k(env, ("unknown", "unary " + str(op)))
        if kind == "BinaryOperator":
            op = n.get("opcode")
            if op == "=":
                return self.assign(n["inner"][0], n["inner"][1], env, k)
            if op in ("&&", "||"):
                def ka(env, a):
                    ca = self.truth(env, a)

                    def kb(env2, b):
                        return k(env2, self.truth(env2, b))
                    if op == "&&":
                        return self.branch(ca, env, lambda e: self.expr(n["inner"][1], e, kb), lambda e: k(e, ("int", 0)))
                    return self.branch(ca, env, lambda e: k(e, ("int", 1)), lambda e: self.expr(n["inner"][1], e, kb))
                return self.expr(n["inner"][0], env, ka)

            def k1(env, a):
                def k2(env, b):
                    if op in ("==", "!=", "<", ">", "<=", ">="):
                        return k(env, self.cmp(op, self.rval_ptr(env, a), self.rval_ptr(env, b)))
                    if a[0] == "int" and b[0] == "int" and op in ("+", "-", "*"):
                        return k(env, ("int", {"+": a[1] + b[1], "-": a[1] - b[1], "*": a[1] * b[1]}[op]))
                    if a[0] == "ptr" or b[0] == "ptr":
                        return k(env, ("unknown", "pointer arithmetic"))
                    return k(env, ("op", op, [a, b]))
                return self.expr(n["inner"][1], env, k2)
            return self.expr(n["inner"][0], env, k1)
        if kind == "MemberExpr":
            fld = n.get("name", "?")

            def km(env, v):
                v = self.rval(env, v)
                if v[0] == "call" and v[1] == "snoopy_inputdatastorage_get":
                    return k(env, ("ids", fld))
                return k(env, ("field", v, fld))
            return self.expr(n["inner"][0], env, km)
        if kind == "ArraySubscriptExpr":
            return self.expr(n["inner"][0], env, lambda env, a: self.expr(n["inner"][1], env, lambda env, i: k(env, ("op", "byteat", [self.rval(env, a), i]))))
        if kind == "UnaryExprOrTypeTraitExpr":
            # sizeof of a character array object (or type): its element count
            t = ""
            if n.get("name") == "sizeof":
                sub = [c for c in n.get("inner", []) if isinstance(c, dict)]
                t = qtype(strip(sub[0])) if sub else (n.get("argType", {}).get("desugaredQualType") or n.get("argType", {}).get("qualType") or "")
                while sub and not t and sub[0].get("inner"):
                    sub = [sub[0]["inner"][0]]; t = qtype(sub[0])
            m = re.fullmatch(r"(?:const\s+)?(?:unsigned\s+|signed\s+)?char\s*\[(\d+)\]", t.strip())
            return k(env, ("int", int(m.group(1))) if m else ("unknown", "sizeof"))
        if kind == "CallExpr":
            return self.call(n, env, k)
        if kind == "ConditionalOperator":
            # c ? a : b  ==  if (c) v = a; else v = b;
            ci, ai, bi = n["inner"][0], n["inner"][1], n["inner"][2]
            return self.expr(ci, env, lambda env, c: self.branch(self.truth(env, c), env, lambda e: self.expr(ai, e, k), lambda e: self.expr(bi, e, k)))
        return k(env, ("unknown", "expr " + str(kind)))

    def rval_ptr(self, env, v):
        return v

    def cmp(self, op, a, b):
        # constant to the right
        if a[0] == "int" and b[0] != "int":
            a, b = b, a
            op = {"<": ">", ">": "<", "<=": ">=", ">=": "<="}.get(op, op)
        if a[0] == "int" and b[0] == "int":
            r = {"==": a[1] == b[1], "!=": a[1] != b[1], "<": a[1] < b[1], ">": a[1] > b[1], "<=": a[1] <= b[1], ">=": a[1] >= b[1]}[op]
            return ("int", 1 if r else 0)
        if a[0] == "ret" and b[0] == "int" and op == ">" and b[1] == 0 and literal_chars(a[2]) > 0:
            return ("int", 1)
        if a[0] == "ptr" and b == ("int", 0):
            # address of a local object or of a block malloc() returned: never NULL (allocation failure is not modelled)
            return ("int", 1 if op == "!=" else 0)
        return ("op", op, [a, b])

    def truth(self, env, v):
        if v[0] == "op" and v[1] in ("==", "!=", "<", ">", "<=", ">="):
            return v
        if v[0] == "int":
            return ("int", 1 if v[1] else 0)
        if v[0] == "ptr":
            return ("int", 1)
        return ("op", "!=", [v, ("int", 0)])

    def branch(self, c, env, kt, ke):
        if c[0] == "int":
            return kt(env) if c[1] else ke(env)
        facts = env.get("$facts", ())
        for (fc, fv) in facts:
            if fc == c:
                return kt(env) if fv else ke(env)
        et, ee = dict(env), dict(env)
        et["$facts"] = facts + ((c, True),)
        ee["$facts"] = facts + ((c, False),)
        return ("if", c, kt(et), ke(ee))

    def lvalue_cell(self, n, env):
        """cell name an lvalue expression designates, or None"""
        s = strip(n)
        if s.get("kind") == "DeclRefExpr":
            return self.scope + s["referencedDecl"]["name"]
        return None

    def assign(self, lhs, rhs, env, k):
        l = strip(lhs)

        def kr(env, v):
            if l.get("kind") == "DeclRefExpr":
                env = dict(env)
                env[self.scope + l["referencedDecl"]["name"]] = v
                return k(env, v)
            if l.get("kind") == "UnaryOperator" and l.get("opcode") == "*":
                def kp(env, p):
                    if p[0] == "ptr":
                        env = dict(env)
                        env[p[1]] = v
                        return k(env, v)
                    return ("other", "store through an unknown pointer")
                return self.expr(l["inner"][0], env, kp)
            if l.get("kind") == "ArraySubscriptExpr":
                def ka(env, a):
                    def ki(env, i):
                        if a[0] == "ptr" and v == ("int", 0):
                            env = dict(env)
                            old = env.get(a[1], ("op", "uninit", []))
                            env[a[1]] = ("str", b"") if i == ("int", 0) else ("op", "setnul", [old, i])
                            return k(env, v)
                        return ("other", "store into a buffer")
                    return self.expr(l["inner"][1], env, ki)
                return self.expr(l["inner"][0], env, ka)
            return ("other", "assignment to " + str(l.get("kind")))
        return self.expr(rhs, env, kr)

    def call(self, n, env, k):
        inner = n["inner"]
        callee = strip(inner[0])
        if callee.get("kind") != "DeclRefExpr" or callee.get("referencedDecl", {}).get("kind") != "FunctionDecl":
            return k(env, ("unknown", "indirect call"))
        f = callee["referencedDecl"]["name"]
        argn = inner[1:]

        def args_then(i, env, acc):
            if i == len(argn):
                return self.apply(f, acc, env, k)
            return self.expr(argn[i], env, lambda env, v: args_then(i + 1, env, acc + [v]))
        return args_then(0, env, [])

    def apply(self, f, args, env, k):
        f = self.tr.wrappers.get(f, f)          # value-transparent wrapper: the call is the wrapped call
        if f in IGNORED:
            return k(env, ("int", 0))
        if f == "malloc":
            cell = self.fresh("malloc")
            env = dict(env)
            env[cell] = ("op", "uninit", [])
            return k(env, ("ptr", cell))
        if f == "snprintf":
            if len(args) < 3 or args[0][0] != "ptr" or args[2][0] != "str":
                return k(env, ("unknown", "snprintf with a computed destination or format"))
            cap, fmt = args[1], args[2][1]
            vals = [self.rval(env, a) for a in args[3:]]
            env = dict(env)
            env[args[0][1]] = ("fmt", cap, fmt, vals)
            return k(env, ("ret", cap, fmt, vals))
        if f in ("strcpy", "strncpy") and args and args[0][0] == "ptr":
            vals = [self.rval(env, a) for a in args[1:]]
            env = dict(env)
            env[args[0][1]] = vals[0] if f == "strcpy" else ("op", f, vals)
            return k(env, args[0])
        if f in PURE:
            return k(env, ("call", f, [self.rval(env, a) for a in args]))
        if f in self.tr.helpers and self.depth < 4:
            return self.inline(f, args, env, k)
        self.calls.append(f)
        outs, ign = OUTS.get(f, ([], []))
        norm = []
        for i, a in enumerate(args):
            if i in ign:
                continue
            if i in outs:
                if a[0] == "ptr":
                    norm.append(("op", "out", []))
                elif a == ("int", 0):
                    norm.append(("int", 0))
                else:
                    norm.append(("unknown", "computed output pointer"))
            else:
                norm.append(self.rval(env, a))
        env = dict(env)
        for i in outs:
            if i < len(args) and args[i][0] == "ptr":
                env[args[i][1]] = ("out", f, norm, i)
        env["$errno"] = ("errno", f, norm)
        return k(env, ("call", f, norm))

    def inline(self, f, args, env, k):
        node = self.tr.helpers[f]
        params = [c["name"] for c in node.get("inner", []) if c.get("kind") == "ParmVarDecl" and "name" in c]
        body = [c for c in node.get("inner", []) if c.get("kind") == "CompoundStmt"][0]
        saved = self.scope
        self.depth += 1
        self.scope = "%s%s@%d::" % (saved, f, self.depth)
        env = dict(env)
        for p, a in zip(params, args):
            env[self.scope + p] = a
        inner_scope = self.scope

        def kret(env, v):
            # back in the caller
            s2, d2 = self.scope, self.depth
            self.scope, self.depth = saved, d2 - 1
            r = k(env, v if v is not None else ("int", 0))
            self.scope, self.depth = s2, d2
            return r
        r = self.stmts(body.get("inner", []), env, kret, lambda env: kret(env, None))
        self.scope = saved
        self.depth -= 1
        return r

    # ---------------------------------------------------------------- statements
    def stmts(self, lst, env, kret, kend, kbrk=None):
        if not lst:
            return kend(env)
        s, rest = lst[0], lst[1:]
        cont = lambda env: self.stmts(rest, env, kret, kend, kbrk)
        kind = s.get("kind")
        if kind == "CompoundStmt":
            return self.stmts(s.get("inner", []), env, kret, cont, kbrk)
        if kind == "NullStmt":
            return cont(env)
        if kind == "DeclStmt":
            decls = [d for d in s.get("inner", []) if d.get("kind") == "VarDecl"]

            def dk(i, env):
                if i == len(decls):
                    return cont(env)
                d = decls[i]
                key = self.scope + d["name"]
                init = [c for c in d.get("inner", []) if c.get("kind", "").endswith(("Expr", "Literal", "Operator"))]
                isarr = qtype(d).rstrip().endswith("]")
                isrec = qtype(d).startswith("struct ") and "*" not in qtype(d)
                if d.get("storageClass") == "static":
                    return ("other", "static local " + d["name"])
                if isarr or isrec:
                    env = dict(env)
                    cell = key + "$obj"
                    env[key] = ("ptr", cell)
                    if init:
                        i0 = strip(init[0])
                        if i0.get("kind") == "StringLiteral":
                            return self.expr(i0, env, lambda env, v: (lambda e2: dk(i + 1, e2))(dict(env, **{cell: v})))
                        env[cell] = ("unknown", "initialiser")
                    else:
                        env[cell] = ("op", "uninit", [])
                    # arrays are used through their address; struct objects too (&pwd) but also by member (tv.tv_sec)
                    if isrec:
                        env[key] = ("ptr", cell)
                    return dk(i + 1, env)
                if init:
                    return self.expr(init[0], env, lambda env, v: dk(i + 1, dict(env, **{key: v})))
                env = dict(env)
                env[key] = ("op", "uninit", [])
                return dk(i + 1, env)
            return dk(0, env)
        if kind == "ReturnStmt":
            inner = s.get("inner", [])
            if not inner:
                return kret(env, None)
            return self.expr(inner[0], env, kret)
        if kind == "IfStmt":
            inner = s.get("inner", [])

            def kc(env, c):
                c = self.truth(env, c)
                th = lambda e: self.stmts([inner[1]], e, kret, cont, kbrk)
                el = (lambda e: self.stmts([inner[2]], e, kret, cont, kbrk)) if len(inner) > 2 else cont
                return self.branch(c, env, th, el)
            return self.expr(inner[0], env, kc)
        if kind == "BreakStmt" and kbrk is not None:
            return kbrk(env)
        if kind == "SwitchStmt":
            return self.switch(s, env, kret, cont, kbrk)
        if kind in ("WhileStmt", "ForStmt", "DoStmt", "GotoStmt", "LabelStmt", "BreakStmt", "ContinueStmt"):
            raise Loop(kind)
        if kind in ("BinaryOperator", "CallExpr", "ImplicitCastExpr", "CStyleCastExpr", "UnaryOperator", "ParenExpr", "CompoundAssignOperator"):
            if kind == "CompoundAssignOperator" or (kind == "UnaryOperator" and s.get("opcode") in ("++", "--")):
                return ("other", "in-place arithmetic")
            return self.expr(s, env, lambda env, v: cont(env))
        return ("other", "statement " + str(kind))

    def switch(self, s, env, kret, cont, kbrk_outer):
        """switch (e) { case K: ...; break/return  ...  default: ... }  ==  if (e == K1) ... else if (e == K2) ... else default.
        Every section must end in break or return (no fall-through into the next section); `break` continues after the switch."""
        inner = [c for c in s.get("inner", []) if isinstance(c, dict) and c.get("kind")]
        if len(inner) < 2 or inner[-1].get("kind") != "CompoundStmt":
            return ("other", "switch without a compound body")
        sections = []          # (labels, statements); label = value node or None for default
        for n in inner[-1].get("inner", []):
            labels = []
            while n.get("kind") in ("CaseStmt", "DefaultStmt"):
                sub = [c for c in n.get("inner", []) if isinstance(c, dict) and c.get("kind")]
                labels.append(sub[0] if n["kind"] == "CaseStmt" else None)
                n = sub[-1]
            if labels:
                sections.append((labels, [n]))
            elif sections:
                sections[-1][1].append(n)
            else:
                return ("other", "statement before the first case label")
        for labels, body in sections:
            if not body or body[-1].get("kind") not in ("BreakStmt", "ReturnStmt"):
                return ("other", "switch section falls through into the next one")
        cases = [(l, b) for ls, b in sections for l in ls if l is not None]
        default = [b for ls, b in sections if None in ls]

        def kv(env, v):
            def chain(i, env):
                if i == len(cases):
                    return self.stmts(default[0], env, kret, cont, cont) if default else cont(env)
                lab, body = cases[i]
                return self.expr(lab, env, lambda env, k: self.branch(self.cmp("==", v, k), env,
                                                                       lambda e: self.stmts(body, e, kret, cont, cont), lambda e: chain(i + 1, e)))
            return chain(0, env)
        return self.expr(inner[0], env, kv)

    def run(self, node):
        params = [c["name"] for c in node.get("inner", []) if c.get("kind") == "ParmVarDecl" and "name" in c]
        body = [c for c in node.get("inner", []) if c.get("kind") == "CompoundStmt"][0]
        self.scope = ""
        env = {"$result": ("buf0",)}
        if len(params) != 3:
            return ("other", "unexpected signature")
        env[params[0]] = ("ptr", "$result")
        env[params[1]] = ("size",)
        env[params[2]] = ("arg",)

        def kret(env, v):
            if v is None:
                return ("other", "return without a value")
            return ("ret_leaf", self.rval(env, v) if v[0] == "ptr" else v, env["$result"])
        try:
            t = self.stmts(body.get("inner", []), env, kret, lambda env: ("other", "falls off the end"))
        except Loop as e:
            return ("other", "loop")
        except RecursionError:
            return ("other", "too deep")
        return simplify(t)


def literal_chars(fmt):
    """number of bytes of a printf format that are printed literally (lower bound of the output length)"""
    return len(re.sub(rb"%[-0 #+]*[0-9*]*(?:\.[0-9*]+)?(?:hh|h|ll|l|z|j|t)?[a-zA-Z%]", b"", fmt))


def simplify(t):
    if t[0] == "if":
        a, b = simplify(t[2]), simplify(t[3])
        if a == b:
            return a
        return ("if", t[1], a, b)
    return t


def walk(n, f):
    f(n)
    for c in n.get("inner", []) or []:
        if isinstance(c, dict):
            walk(c, f)


def ast_calls_and_formats(node):
    """purely syntactic: callee names and literals used as the format of snprintf(resultBuf, ...)"""
    calls, fmts = [], []

    def f(n):
        if n.get("kind") == "CallExpr" and n.get("inner"):
            c = strip(n["inner"][0])
            if c.get("kind") == "DeclRefExpr":
                name = c.get("referencedDecl", {}).get("name")
                calls.append(name)
                if name == "snprintf" and len(n["inner"]) >= 4:
                    d = strip(n["inner"][1])
                    fm = strip(n["inner"][3])
                    while fm.get("kind") in ("ImplicitCastExpr",):
                        fm = strip(fm["inner"][0])
                    if d.get("kind") == "DeclRefExpr" and d["referencedDecl"].get("name") == "resultBuf" and fm.get("kind") == "StringLiteral":
                        try:
                            fmts.append(json.loads(fm["value"]).encode("latin-1"))
                        except Exception:
                            fmts.append(c_unescape(fm["value"][1:-1]))
    walk(node, f)
    return calls, fmts


# ------------------------------------------------------------------------------------------------ Coq rendering
FN_KNOWN = ["getuid", "geteuid", "getgid", "getegid", "getpid", "getppid", "getsid", "getpgrp", "getpgid", "pthread_self", "syscall",
            "getpwuid_r", "getgrgid_r", "getcwd", "gethostname", "getenv", "ttyname_r", "stat", "getlogin_r", "gettimeofday", "time",
            "localtime_r", "strftime", "sysconf", "strlen", "strcmp", "strncmp", "strcpy", "strncpy", "atoi", "snoopy_inputdatastorage_get"]


def q(s):
    return '"' + s.replace('"', '""') + '"'


def coq_fn(f):
    return "F_" + f if f in FN_KNOWN else "(F_other %s)" % q(f)


def coq_z(z):
    return "(%d)%%Z" % z


def coq_sx(v):
    k = v[0]
    L = lambda l: "[" + "; ".join(coq_sx(x) for x in l) + "]"
    if k == "call":
        return "(ECall %s %s)" % (coq_fn(v[1]), L(v[2]))
    if k == "out":
        return "(EOut %s %s %d)" % (coq_fn(v[1]), L(v[2]), v[3])
    if k == "errno":
        return "(EErrno %s %s)" % (coq_fn(v[1]), L(v[2]))
    if k == "int":
        return "(EInt %s)" % coq_z(v[1])
    if k == "str":
        return "(EStr %s)" % coq_bytes(v[1])
    if k == "arg":
        return "EArg"
    if k == "size":
        return "ESize"
    if k == "buf0":
        return "EBuf0"
    if k == "cast":
        return "(ECast %s %d%%N %s)" % ("true" if v[1] else "false", v[2], coq_sx(v[3]))
    if k == "op":
        return "(EOp %s %s)" % (q(v[1]), L(v[2]))
    if k == "fmt":
        return "(EFmt %s %s %s)" % (coq_sx(v[1]), coq_bytes(v[2]), L(v[3]))
    if k == "ret":
        return "(ERet %s %s %s)" % (coq_sx(v[1]), coq_bytes(v[2]), L(v[3]))
    if k == "field":
        return "(EField %s %s)" % (coq_sx(v[1]), q(v[2]))
    if k == "ids":
        return "(EIds %s)" % q(v[1])
    if k == "ptr":
        return "(EUnknown %s)" % q("pointer to " + v[1].split("#")[0])
    return "(EUnknown %s)" % q(str(v[1]) if len(v) > 1 else k)


def coq_tree(t, ind=2):
    sp = " " * ind
    if t[0] == "ret_leaf":
        r, b = t[1], t[2]
        if r[0] == "ret" and b[0] == "fmt" and r[1] == ("size",) and b[1] == ("size",) and r[2:] == b[2:]:
            return "%s(TPrint %s [%s])" % (sp, coq_bytes(r[2]), "; ".join(coq_sx(x) for x in r[3]))
        return "%s(TRet %s\n%s      %s)" % (sp, coq_sx(t[1]), sp, coq_sx(t[2]))
    if t[0] == "if":
        return "%s(TIf %s\n%s\n%s)" % (sp, coq_sx(t[1]), coq_tree(t[2], ind + 1), coq_tree(t[3], ind + 1))
    return "%s(TOther %s)" % (sp, q(str(t[1])))


def tree_formats(t, acc):
    def sx(v):
        if not isinstance(v, tuple):
            return
        if v[0] in ("fmt", "ret") and v[1] == ("size",):
            acc.add(v[2])
        for x in v[1:]:
            if isinstance(x, tuple):
                sx(x)
            elif isinstance(x, list):
                for y in x:
                    sx(y)
    if t[0] == "ret_leaf":
        sx(t[1]); sx(t[2])
    elif t[0] == "if":
        sx(t[1]); tree_formats(t[2], acc); tree_formats(t[3], acc)
    return acc


# ------------------------------------------------------------------------------------------------ T1 constants of the loop-based sources
def loop_consts(run):
    v = {}
    notes = run.notes
    ea = strip_comments(run.src("src/datasource/env_all.c"))
    b = func_body(ea, "snoopy_datasource_env_all") or ""
    # "not in front of the first entry": a counter incremented at the top of the loop compared with 1, or the walking pointer compared with environ
    m = re.search(r"\(\s*(?:i\s*>\s*1|\w+\s*!=\s*environ|environ\s*!=\s*\w+)\s*\)\s*&&\s*\(\s*remResultSize\s*>=\s*(\d+)\s*\)", b)
    v["ea_comma_min"] = int(m.group(1)) if m else None
    m = re.search(r"resultBuf\s*\[\s*resultSize\s*\]\s*=\s*'(.)'\s*;", b)
    v["ea_sep"] = m.group(1).encode() if m else None
    m = re.search(r"\(\s*strlen\s*\(\s*envItem\s*\)\s*\+\s*(\d+)\s*\+\s*(\d+)\s*\)\s*<\s*remResultSize", b)
    v["ea_whole_margin"] = int(m.group(1)) + int(m.group(2)) if m else None
    m = re.search(r"strSizeToCopy\s*=\s*remResultSize\s*-\s*(\d+)\s*;", b)
    v["ea_cut_margin"] = int(m.group(1)) if m else None
    m = re.search(r"strSizeToCopy\s*=\s*(\d+)\s*;[^;]*snprintf\s*\(\s*&resultBuf\s*\[\s*resultSize\s*\]\s*,\s*strSizeToCopy\s*,\s*" + STR + r"\s*\)", b, re.S)
    v["ea_marker_size"] = int(m.group(1)) if m else None
    v["ea_marker"] = c_unescape(m.group(2)) if m else None
    v["ea_null_guard"] = bool(re.search(r"resultBuf\s*\[\s*0\s*\]\s*=\s*'\\0'\s*;\s*if\s*\(\s*NULL\s*==\s*environ\s*\)\s*\{\s*return\s+0\s*;", b))
    # cgroup
    cg = strip_comments(run.src("src/datasource/cgroup.c"))
    cb = func_body(cg, "snoopy_datasource_cgroup") or ""
    m = re.search(r'snprintf\s*\(\s*procPidCgroupFilePath\s*,[^,]+,\s*' + STR + r"\s*,\s*myPid\s*\)", cb)
    v["cg_path_fmt"] = c_unescape(m.group(1)) if m else None
    v["cg_pid_is_getpid"] = bool(re.search(r"myPid\s*=\s*getpid\s*\(\s*\)\s*;", cb))
    m = re.search(r'snprintf\s*\(\s*resultBuf\s*,\s*resultBufSize\s*,\s*"%s"\s*,\s*' + STR + r"\s*\)", cb)
    v["cg_none"] = c_unescape(m.group(1)) if m else None
    m = re.search(r'snprintf\s*\(\s*resultBuf\s*,\s*resultBufSize\s*,\s*' + STR + r"\s*\)\s*;\s*return\s+SNOOPY_DATASOURCE_FAILURE", cb)
    v["cg_missing_arg"] = c_unescape(m.group(1)) if m else None
    v["cg_num_fmt"] = None
    rb = reachable_body(cg, "snoopy_datasource_cgroup")
    m = re.search(r'snprintf\s*\(\s*searchString\s*,\s*searchStringLen\s*,\s*' + STR + r"\s*,\s*(\w+)\s*\)", rb)
    m2 = re.search(r"snoopy_util_string_findLineStartingWith\s*\(\s*(\w+)\s*,\s*searchString\s*\)", rb)
    if m and m2 and re.search(r"strlen\s*\(\s*%s\s*\)\s*\+\s*2" % re.escape(m.group(2)), rb) and re.search(r"snoopy_util_string_nullTerminateLine\s*\(", rb):
        what, where = m.group(2), m2.group(1)
        if what == "arg" and where == "procPidCgroupContent":
            v["cg_num_fmt"] = c_unescape(m.group(1))
        else:
            # moved into a static helper: it must be called with (content, arg) in the positions of the names used there
            for hm in re.finditer(r"static\s+[\w\s\*]+?\b(\w+)\s*\(([^;{)]*)\)\s*\{", cg):
                params = [re.split(r"[\s\*]+", x.strip())[-1] for x in hm.group(2).split(",")]
                if what in params and where in params:
                    cm = re.search(r"cgroupEntry\s*=\s*%s\s*\(([^;]*)\)\s*;" % re.escape(hm.group(1)), cb)
                    if cm:
                        args = [x.strip() for x in cm.group(1).split(",")]
                        if len(args) == len(params) and args[params.index(what)] == "arg" and args[params.index(where)] == "procPidCgroupContent":
                            v["cg_num_fmt"] = c_unescape(m.group(1))
    m = re.search(r'strtok_r\s*\(\s*procPidCgroupContent\s*,\s*' + STR, cb)
    v["cg_line_sep"] = c_unescape(m.group(1)) if m else None
    fh = strip_comments(run.src("src/util/file-snoopy.h"))
    m = re.search(r"SNOOPY_UTIL_FILE__SMALL_FILE_MAX_SIZE\s+(\d+)", fh)
    v["cg_file_max"] = int(m.group(1)) if m else None
    # rpname
    rp = strip_comments(run.src("src/datasource/rpname.c"))
    d = dict(re.findall(r"#define\s+(\w+)\s+(\S+)", rp))
    v["rp_key_name"] = c_unescape(d.get("PROC_PID_STATUS_KEY_NAME", '""').strip('"')) or None
    v["rp_key_ppid"] = c_unescape(d.get("PROC_PID_STATUS_KEY_PPID", '""').strip('"')) or None
    v["rp_unknown"] = c_unescape(d.get("UNKNOWN_STR", '""').strip('"')) or None
    v["rp_root_pid"] = int(d["PID_ROOT"]) if d.get("PID_ROOT", "").isdigit() else None
    v["rp_zero_pid"] = int(d["PID_ZERO"]) if d.get("PID_ZERO", "").isdigit() else None
    v["rp_val_max"] = cpp_value(run, "NAME_MAX") if d.get("PROC_PID_STATUS_VAL_MAX_LENGTH") == "NAME_MAX" else None
    m = re.search(r'snprintf\s*\(\s*pid_file\s*,[^,]+,\s*' + STR + r"\s*,\s*pid\s*\)", rp)
    v["rp_path_fmt"] = c_unescape(m.group(1)) if m else None
    v["rp_start_is_getpid"] = bool(re.search(r"return\s+get_rpname\s*\(\s*getpid\s*\(\s*\)\s*,\s*resultBuf\s*,\s*resultBufSize\s*\)", rp))
    pb = func_body(rp, "read_proc_property") or ""
    v["rp_value_verbatim"] = bool(re.search(r"if\s*\(\s*strcmp\s*\(\s*prop_name\s*,\s*k\s*\)\s*==\s*0\s*\)\s*\{\s*v\+\+\s*;\s*vLen\s*=\s*strlen\s*\(\s*v\s*\)\s*;\s*v\s*\[\s*vLen\s*-\s*1\s*\]\s*=\s*0\s*;\s*vLen--\s*;\s*if\s*\(\s*vLen\s*>", pb))
    # datetime
    dh = strip_comments(run.src("src/datasource/datetime.h"))
    m = re.search(r"SNOOPY_DATASOURCE_DATETIME_defaultFormat\s+" + STR, dh)
    v["dt_default_fmt"] = c_unescape(m.group(1)) if m else None
    m = re.search(r"SNOOPY_DATASOURCE_DATETIME_sizeMaxWithNull\s+(\d+)", dh)
    v["dt_buf"] = int(m.group(1)) if m else None
    # configuration facts
    cfg = run.src("config.h")
    m = re.search(r'#define\s+PACKAGE_VERSION\s+' + STR, cfg)
    v["cfg_version"] = c_unescape(m.group(1)) if m else None
    m = re.search(r'#define\s+SNOOPY_CONFIGURE_COMMAND\s+' + STR, cfg)
    v["cfg_configure_command"] = c_unescape(m.group(1)) if m else None
    v["path_max"] = cpp_value(run, "PATH_MAX")
    v["login_name_max"] = cpp_value(run, "LOGIN_NAME_MAX")
    for k, val in v.items():
        if val is None:
            notes.append("translator: could not read ds.%s from the source" % k)
    return v


CONST_ORDER = ["ea_comma_min", "ea_sep", "ea_whole_margin", "ea_cut_margin", "ea_marker_size", "ea_marker", "ea_null_guard",
               "cg_path_fmt", "cg_pid_is_getpid", "cg_none", "cg_missing_arg", "cg_num_fmt", "cg_line_sep", "cg_file_max",
               "rp_key_name", "rp_key_ppid", "rp_unknown", "rp_root_pid", "rp_zero_pid", "rp_val_max", "rp_path_fmt", "rp_start_is_getpid", "rp_value_verbatim",
               "dt_default_fmt", "dt_buf", "cfg_version", "cfg_configure_command", "path_max", "login_name_max"]
CONST_KIND = {"ea_comma_min": int, "ea_sep": bytes, "ea_whole_margin": int, "ea_cut_margin": int, "ea_marker_size": int, "ea_marker": bytes,
              "ea_null_guard": bool, "cg_path_fmt": bytes, "cg_pid_is_getpid": bool, "cg_none": bytes, "cg_missing_arg": bytes, "cg_num_fmt": bytes,
              "cg_line_sep": bytes, "cg_file_max": int, "rp_key_name": bytes, "rp_key_ppid": bytes, "rp_unknown": bytes, "rp_root_pid": int, "rp_zero_pid": int,
              "rp_val_max": int, "rp_path_fmt": bytes, "rp_start_is_getpid": bool, "rp_value_verbatim": bool, "dt_default_fmt": bytes, "dt_buf": int,
              "cfg_version": bytes, "cfg_configure_command": bytes, "path_max": int, "login_name_max": int}


class Translator:
    def __init__(self, run):
        self.run = run
        self.helpers = {}
        self.wrappers = {}
        self.asts = {}

    def ast(self, rel):
        if rel not in self.asts:
            self.asts[rel] = functions(clang_ast(self.run, rel))
        return self.asts[rel]


HELPER_FILES = ["src/util/pwd.c", "src/datasource/tty__common.c"]
WRAPPER_FILES = ["src/tsrm.c"]


def value_transparent_wrappers(tr):
    """functions of the tree whose body is exactly:  T r;  pthread_mutex_lock(&M);  r = F(p1, ..., pn);  pthread_mutex_unlock(&M);  return r;
    with p1..pn the function's own parameters in order: the call returns what F returns and stores what F stores (the lock is C09/C10's
    business).  name -> F.  Read from the AST, nothing is recognised by name."""
    out = {}
    for rel in WRAPPER_FILES:
        if not os.path.exists(os.path.join(tr.run.tree, rel)):
            continue
        for name, node in tr.ast(rel).items():
            params = [c["name"] for c in node.get("inner", []) if c.get("kind") == "ParmVarDecl" and "name" in c]
            body = [c for c in node.get("inner", []) if c.get("kind") == "CompoundStmt"][0].get("inner", [])
            if len(body) != 5 or not params:
                continue
            d, lk, asg, ul, ret = body

            def callee(n):
                n = strip(n)
                if n.get("kind") != "CallExpr":
                    return None, []
                c = strip(n["inner"][0])
                return c.get("referencedDecl", {}).get("name"), n["inner"][1:]

            def ref(n):
                n = strip(n)
                while n.get("kind") in ("ImplicitCastExpr", "ParenExpr") and n.get("inner"):
                    n = strip(n["inner"][0])
                return n.get("referencedDecl", {}).get("name") if n.get("kind") == "DeclRefExpr" else None

            def mutex(args):
                a = strip(args[0]) if len(args) == 1 else {}
                return ref(a["inner"][0]) if a.get("kind") == "UnaryOperator" and a.get("opcode") == "&" else None
            if d.get("kind") != "DeclStmt" or len(d.get("inner", [])) != 1 or d["inner"][0].get("kind") != "VarDecl" or d["inner"][0].get("inner"):
                continue
            r = d["inner"][0]["name"]
            f1, a1 = callee(lk)
            f2, a2 = callee(ul)
            if f1 != "pthread_mutex_lock" or f2 != "pthread_mutex_unlock" or mutex(a1) is None or mutex(a1) != mutex(a2):
                continue
            if asg.get("kind") != "BinaryOperator" or asg.get("opcode") != "=" or ref(asg["inner"][0]) != r:
                continue
            f, args = callee(asg["inner"][1])
            if f is None or f in tr.asts.get(rel, {}) or [ref(a) for a in args] != params:
                continue
            if ret.get("kind") != "ReturnStmt" or not ret.get("inner") or ref(ret["inner"][0]) != r:
                continue
            out[name] = f
    return out


def tr_ds(run):
    tr = Translator(run)
    for rel in HELPER_FILES:
        if os.path.exists(os.path.join(run.tree, rel)):
            for name, node in tr.ast(rel).items():
                tr.helpers[name] = node
    tr.wrappers = value_transparent_wrappers(tr)
    reg = registry(run)
    # which file defines which data source function
    defs = {}
    dsdir = os.path.join(run.tree, "src/datasource")
    for fn in sorted(os.listdir(dsdir)):
        if fn.endswith(".c"):
            txt = strip_comments(open(os.path.join(dsdir, fn), encoding="utf-8", errors="replace").read())
            for m in re.finditer(r"\bint\s+(snoopy_datasource_\w+)\s*\([^;{]*\)\s*\{", txt):
                defs[m.group(1)] = "src/datasource/" + fn
    entries = []
    info = {}
    for name, sym in reg:
        rel = defs.get(sym)
        if not rel:
            entries.append((name, sym, [], ("other", "definition not found")))
            run.notes.append("translator: no definition found for %s (registry name %s)" % (sym, name))
            continue
        node = tr.ast(rel).get(sym)
        if node is None:
            entries.append((name, sym, [], ("other", "definition not found by clang")))
            continue
        s = Sym(tr, sym)
        tree = s.run(node)
        calls, fmts = ast_calls_and_formats(node)
        calls = calls + [tr.wrappers[c] for c in calls if c in tr.wrappers]      # a wrapper stands for the call it wraps
        # regex cross-check on the text of the same function
        txt = strip_comments(run.src(rel))
        body = func_body(txt, sym) or ""
        rx_fmts = sorted(set(c_unescape(x) for x in re.findall(r"snprintf\s*\(\s*resultBuf\s*,\s*resultBufSize\s*,\s*" + STR, body)))
        rx_calls = set(re.findall(r"\b([A-Za-z_][A-Za-z0-9_]*)\s*\(", body)) - {"if", "while", "for", "return", "sizeof", "switch", "defined", "__attribute__", "unused"}
        ast_fmts = sorted(set(fmts))
        macro_like = {c for c in rx_calls if c.isupper()}
        if rx_fmts != ast_fmts or not (set(calls) - {"__errno_location"} <= rx_calls | {"snprintf"}) or not (rx_calls - macro_like - {"errno"} <= set(calls) | {"int", "unsigned", "long", "char", "size_t", "time_t", "uid_t"}):
            run.notes.append("translator: AST and regex readings of %s disagree (formats %s / %s; calls %s / %s)" % (sym, ast_fmts, rx_fmts, sorted(set(calls)), sorted(rx_calls)))
            tree = ("other", "AST and regex readings disagree")
        ext = []
        for c in calls:
            if c not in ext and c not in ("snprintf", "free", "malloc", "__errno_location") and c not in tr.wrappers:
                ext.append(c)
        # file-local functions of the same file (static helpers the body was split into) stand for the calls they make
        local = tr.ast(rel)
        changed = True
        while changed:
            changed = False
            for c in list(ext):
                if c in local and c != sym:
                    ext.remove(c)
                    hc, _ = ast_calls_and_formats(local[c])
                    for x in hc:
                        x = tr.wrappers.get(x, x)
                        if x not in ext and x != c and x not in ("snprintf", "free", "malloc", "__errno_location"):
                            ext.append(x)
                    changed = True
        # helpers contribute their own external calls
        for c in list(ext):
            if c in tr.helpers:
                hc, _ = ast_calls_and_formats(tr.helpers[c])
                for x in hc:
                    if x not in ext and x not in ("snprintf", "free", "malloc", "__errno_location"):
                        ext.append(x)
        entries.append((name, sym, ext, tree))
        info[name] = {"symbol": sym, "file": rel, "calls": ext, "recognised": tree[0] != "other", "formats": [f.decode("latin-1") for f in ast_fmts]}
    consts = loop_consts(run)
    # ---- Gen_Ds.v
    out = ["(* GENERATED from the current /repo working tree by vlib/tr_ds.py -- do not edit *)",
           "From Coq Require Import String ZArith NArith List.", "From Snoopy Require Import Lib.CStr DsTruth.Model.",
           "Import ListNotations.", "Local Open Scope string_scope.", ""]
    fields = []
    for kname in CONST_ORDER:
        val = consts.get(kname)
        kind = CONST_KIND[kname]
        if kind is bool:
            fields.append("%s := %s" % (kname, "true" if val else "false"))
        elif kind is int:
            fields.append("%s := %d%%N" % (kname, val if val is not None else 0))
        else:
            fields.append("%s := %s" % (kname, coq_bytes(val if val is not None else b"")))
    out.append("Definition consts : ds_consts :=\n  {| %s |}.\n" % ";\n     ".join(fields))
    out.append("Definition table : list ds_entry := [")
    rows = []
    for name, sym, ext, tree in entries:
        rows.append("  {| de_name := %s; de_symbol := %s; de_calls := [%s]; de_tree :=\n%s |}" % (q(name), q(sym), "; ".join(q(c) for c in ext), coq_tree(tree, 4)))
    out.append(";\n".join(rows))
    out.append("].\n")
    out.append("Definition gen : ds_gen := {| g_consts := consts; g_table := table |}.\n")
    run.write_gen("Gen_Ds.v", "\n".join(out))
    js = {"entries": info, "value_transparent_wrappers": tr.wrappers, "consts": {k: (v.hex() if isinstance(v, bytes) else v) for k, v in consts.items()}, "registry": reg}
    json.dump(js, open(os.path.join(run.scratch, "consts_dstruth.json"), "w"), indent=1)
    # tsv for the model driver
    tsv = []
    for kname in CONST_ORDER:
        val = consts.get(kname)
        kind = CONST_KIND[kname]
        if kind is bool:
            tsv.append("%s\t%d" % (kname, 1 if val else 0))
        elif kind is int:
            tsv.append("%s\t%d" % (kname, val or 0))
        else:
            from .core import hexs
            tsv.append("%s\t%s" % (kname, hexs(val or b"")))
    ts_wide = any(n == "timestamp" and b"%lld" in tree_formats(t, set()) for n, _, _, t in entries)
    tsv.append("ts_wide\t%d" % (1 if ts_wide else 0))
    js["ts_wide"] = ts_wide
    open(os.path.join(run.scratch, "consts_dstruth.tsv"), "w").write("\n".join(tsv) + "\n")
    run.consts["dstruth"] = js
    return js, entries
