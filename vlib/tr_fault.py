"""Translator for area Fault (C03): flag words, fopen modes, sizes, paths, compiled registries, per-object libc call sets and
the skeletons of the outputs / the error handler, all from the snapshot of the working tree.

T1  regex over the PREPROCESSED text of each function (gcc -E with the tree's config.h: the branch that is compiled is the one read),
    flag expressions evaluated by the build's compiler against the platform headers;
T2  clang-AST skeletons (vlib/skel.py, plus assignment-inside-expression) of the eight outputs and the error handler;
nm  per-object undefined symbols: which libc functions each source file of the library calls.
Anything not recognised is rendered as a value that makes fault_consts_ok false (0, empty, false) and noted."""
import os, re, subprocess
from .core import coq_bytes, CheckError, hexs
from .translate import strip_comments, func_body, c_unescape, STR
from . import skel as skelmod
from .skel import clang_ast, functions, q


# ---------------------------------------------------------------------------------------- helpers
def preprocessed(run, rel):
    cmd = ["gcc", "-E", "-P", "-std=c99", "-DHAVE_CONFIG_H", "-w", "-I" + run.tree, "-I" + os.path.join(run.tree, "src")] + run.inih_defs() + [os.path.join(run.tree, rel)]
    p = subprocess.run(cmd, stdout=subprocess.PIPE, stderr=subprocess.PIPE, text=True, errors="replace")
    if p.returncode != 0:
        raise CheckError("gcc -E failed on %s: %s" % (rel, p.stderr[-1500:]))
    return p.stdout


def cpp_values(run, exprs, includes, extra_src=""):
    """{name: C integer expression} -> {name: value or None}; one compilation for all that compile, singly for the rest."""
    def attempt(items):
        prog = "".join("#include <%s>\n" % i for i in includes) + extra_src + "\n#include <stdio.h>\nint main(){\n" + \
            "".join('printf("%s %%lld\\n",(long long)(%s));\n' % (k, e) for k, e in items) + "return 0;}\n"
        exe = os.path.join(run.scratch, "cppvals")
        p = subprocess.run(["gcc", "-x", "c", "-", "-o", exe, "-D_GNU_SOURCE", "-I" + run.tree, "-I" + os.path.join(run.tree, "src"), "-DHAVE_CONFIG_H", "-w"],
                           input=prog, text=True, stdout=subprocess.PIPE, stderr=subprocess.STDOUT)
        if p.returncode != 0:
            return None
        out = subprocess.run([exe], stdout=subprocess.PIPE, text=True).stdout
        return {l.split()[0]: int(l.split()[1]) for l in out.splitlines() if l.strip()}
    items = [(k, e) for k, e in exprs.items() if e]
    res = attempt(items)
    if res is None:
        res = {}
        for k, e in items:
            r = attempt([(k, e)])
            res[k] = r[k] if r else None
    return {k: res.get(k) for k in exprs}


def cpp_strings(run, exprs, includes):
    prog = "".join("#include <%s>\n" % i for i in includes) + "\n#include <stdio.h>\nint main(){\n" + \
        "".join('{const char*s=%s; printf("%s ");while(*s)printf("%%02x",(unsigned char)*s++);printf("\\n");}\n' % (e, k) for k, e in exprs.items()) + "return 0;}\n"
    exe = os.path.join(run.scratch, "cppstrs")
    p = subprocess.run(["gcc", "-x", "c", "-", "-o", exe, "-I" + run.tree, "-I" + os.path.join(run.tree, "src"), "-DHAVE_CONFIG_H", "-w"],
                       input=prog, text=True, stdout=subprocess.PIPE, stderr=subprocess.STDOUT)
    if p.returncode != 0:
        raise CheckError("cannot evaluate default configuration strings: " + p.stdout[-800:])
    out = subprocess.run([exe], stdout=subprocess.PIPE, text=True).stdout
    res = {}
    for l in out.splitlines():
        f = l.split(" ")
        res[f[0]] = bytes.fromhex(f[1]) if len(f) > 1 and f[1] else b""
    return res


def fn_body(src, name):
    """body of the DEFINITION of `name` (header starts in column 0; a call site `if (name(x)) {` is not a definition), or None"""
    for m in re.finditer(r"^[A-Za-z_][^\n;{}]*?\b" + re.escape(name) + r"\s*\(", src, re.M):
        # parameter list: balanced parentheses, then `{`
        i, depth = m.end(), 1
        while i < len(src) and depth:
            depth += {"(": 1, ")": -1}.get(src[i], 0)
            i += 1
        k = i
        while k < len(src) and src[k] in " \t\r\n":
            k += 1
        if k >= len(src) or src[k] != "{":
            continue            # a prototype
        j, depth = k + 1, 1
        while j < len(src) and depth:
            ch = src[j]
            if ch == "{":
                depth += 1
            elif ch == "}":
                depth -= 1
            elif ch == '"':
                j += 1
                while j < len(src) and src[j] != '"':
                    j += 2 if src[j] == "\\" else 1
            elif ch == "'":
                j += 1
                while j < len(src) and src[j] != "'":
                    j += 2 if src[j] == "\\" else 1
            j += 1
        return src[k + 1:j - 1]
    return None


def reach(src, fn, depth=2):
    """body of fn followed by the bodies of the file-local static functions it calls (to the given depth): the text a statement may
    have been moved to by an "extract a static helper" clean-up.  None when fn itself is not found."""
    body = fn_body(src, fn)
    if body is None:
        return None
    statics = set(re.findall(r"^static\b[^\n;{}(]*?\b(\w+)\s*\(", src, re.M))
    seen, todo, out = {fn}, [(body, 0)], [body]
    while todo:
        b, d = todo.pop()
        if d >= depth:
            continue
        for name in sorted(statics):
            if name not in seen and re.search(r"\b%s\s*\(" % re.escape(name), b):
                hb = fn_body(src, name)
                if hb is not None:
                    seen.add(name)
                    out.append(hb)
                    todo.append((hb, d + 1))
    return "\n".join(out)


def registry_names(run, rel, array):
    """string entries of `char *<array>[] = { ... }` in the preprocessed file (i.e. under the guards that hold), without the final ""."""
    pp = preprocessed(run, rel)
    m = re.search(r"\b" + re.escape(array) + r"\s*\[\s*\]\s*=\s*\{(.*?)\}\s*;", pp, re.S)
    if not m:
        return None
    names = [c_unescape(x) for x in re.findall(STR, m.group(1))]
    return [n for n in names if n != b""]


# ---------------------------------------------------------------------------------------- skeletons with `=` inside expressions
class Fn2(skelmod.Fn):
    """skel.Fn + assignment inside an expression + non-printable string literals; inlined static helpers are translated by Fn2 as well"""
    def _inlinable(self, call):
        res = super()._inlinable(call)
        if res is None:
            return None
        h, stmts, ret = res
        h2 = Fn2(h.node, h.statics, h.subst, h.depth)
        h2.params = []
        return h2, stmts, ret

    def expr(self, n):
        s = skelmod.strip(n)
        if s.get("kind") == "StringLiteral":
            import json as _json
            try:
                lit = _json.loads(s.get("value", '""'))
            except Exception:
                lit = s.get("value", "").strip('"')
            if not all(32 <= ord(ch) < 127 for ch in lit):      # keep the literal, non-printable bytes spelled \\xNN
                return "(XStr %s)" % q("".join(ch if 32 <= ord(ch) < 127 else "\\x%02x" % (ord(ch) & 255) for ch in lit))
        if s.get("kind") == "BinaryOperator" and s.get("opcode") == "=":
            return "(XOp %s [%s; %s])" % (q("="), self.expr(s["inner"][0]), self.expr(s["inner"][1]))
        return super().expr(n)


FAULT_SKELS = [
    ("sk_socketoutput", "src/output/socketoutput.c", "snoopy_output_socketoutput"),
    ("sk_fileoutput", "src/output/fileoutput.c", "snoopy_output_fileoutput"),
    ("sk_devlogoutput", "src/output/devlogoutput.c", "snoopy_output_devlogoutput"),
    ("sk_devttyoutput", "src/output/devttyoutput.c", "snoopy_output_devttyoutput"),
    ("sk_devnulloutput", "src/output/devnulloutput.c", "snoopy_output_devnulloutput"),
    ("sk_stdoutoutput", "src/output/stdoutoutput.c", "snoopy_output_stdoutoutput"),
    ("sk_stderroutput", "src/output/stderroutput.c", "snoopy_output_stderroutput"),
    ("sk_syslogoutput", "src/output/syslogoutput.c", "snoopy_output_syslogoutput"),
    ("sk_error_handler", "src/error.c", "snoopy_error_handler"),
    ("sk_message_append", "src/message.c", "snoopy_message_append"),
]


def emit_fault_skeletons(run):
    out = ["(* GENERATED from the current /repo working tree by vlib/tr_fault.py (clang AST) -- do not edit *)",
           "From Coq Require Import String ZArith List.", "From Snoopy Require Import Lib.Skel.", "Import ListNotations.", "Local Open Scope string_scope.", ""]
    cache = {}
    for ident, rel, fn in FAULT_SKELS:
        if rel not in cache:
            cache[rel] = functions(clang_ast(run, rel))
        node = cache[rel].get(fn)
        if node is None:
            run.notes.append("skeleton translator: function %s not found in %s" % (fn, rel))
            n, body = 0, '[SOther "missing function"]'
        else:
            statics = {k: v for k, v in cache[rel].items() if v.get("storageClass") == "static"}
            f = Fn2(node, statics)       # calls of file-local static helpers are spliced in (vlib/skel.py): "extract a helper" leaves the skeleton unchanged
            n, body = len(f.params), f.stmts(f.body)
        out.append("Definition %s : fn_skel := {| sk_name := %s; sk_nparams := %d; sk_body :=\n %s |}.\n" % (ident, q(fn), n, body))
    run.write_gen("Gen_FaultSkel.v", "\n".join(out))


# ---------------------------------------------------------------------------------------- per-object libc call sets
def object_calls(objs, run=None):
    """{relative source name without .c: sorted list of undefined non-snoopy symbols}"""
    res = {}
    names = {}
    if run is not None:
        for src in run.lib_sources(entry=True):
            rel = os.path.relpath(src, run.tree)
            names[rel.replace("/", "__")[:-2]] = rel[:-2]
    for o in objs:
        base = os.path.basename(o)[:-2]
        name = names.get(base, base.replace("__", "/"))
        p = subprocess.run(["nm", "-u", o], stdout=subprocess.PIPE, text=True)
        syms = sorted(set(l.split()[-1].split("@")[0] for l in p.stdout.splitlines() if l.strip()))
        res[name] = [s for s in syms if not s.startswith("snoopy_") and not s.startswith("_GLOBAL_") and not s.startswith("__stack_chk") and not s.startswith("_ITM_")
                     and s not in ("__gmon_start__",)]
    return res


def arg_expr(text, call, index, nargs=None):
    """text of the index-th top-level argument of the first `call(` in text, or None"""
    m = re.search(r"\b" + re.escape(call) + r"\s*\(", text)
    if not m:
        return None
    i, depth, args, cur = m.end(), 1, [], ""
    while i < len(text) and depth:
        ch = text[i]
        if ch == "(":
            depth += 1
        elif ch == ")":
            depth -= 1
            if depth == 0:
                break
        if ch == "," and depth == 1:
            args.append(cur); cur = ""
        else:
            cur += ch
        i += 1
    args.append(cur)
    if nargs is not None and len(args) != nargs:
        return None
    return args[index].strip() if index < len(args) else None


def fopen_mode(run, rel, fn, notes, nfopen=1):
    pp = preprocessed(run, rel)
    body = reach(pp, fn)
    if body is None:
        notes.append("translator: %s not found in %s" % (fn, rel))
        return b""
    calls = re.findall(r"\bfopen\s*\(\s*[^,]+,\s*" + STR + r"\s*\)", body)
    if len(calls) != nfopen:
        notes.append("translator: %s has %d fopen calls (expected %d)" % (fn, len(calls), nfopen))
        return b""
    return c_unescape(calls[0])


def tr_fault(run, objs=None):
    notes = run.notes
    v = {}
    # ---- platform bit values (headers of the build)
    bits = cpp_values(run, {
        "b_af_unix": "AF_UNIX", "b_sock_dgram": "SOCK_DGRAM", "b_sock_typemask": "0xf", "b_sock_nonblock": "SOCK_NONBLOCK", "b_sock_cloexec": "SOCK_CLOEXEC",
        "b_msg_dontwait": "MSG_DONTWAIT", "b_msg_nosignal": "MSG_NOSIGNAL", "b_o_accmode": "O_ACCMODE", "b_o_wronly": "O_WRONLY", "b_o_creat": "O_CREAT",
        "b_o_append": "O_APPEND", "b_o_nonblock": "O_NONBLOCK", "b_o_trunc": "O_TRUNC"}, includes=("sys/socket.h", "fcntl.h"))
    v.update(bits)
    # ---- socketoutput.c (preprocessed: the compiled #if branch)
    spp = preprocessed(run, "src/output/socketoutput.c")
    sb = reach(spp, "snoopy_output_socketoutput") or ""
    ex = {"sock_dom": arg_expr(sb, "socket", 0, 3), "sock_ty": arg_expr(sb, "socket", 1, 3), "send_flags": arg_expr(sb, "send", 3, 4),
          "sock_path_max": arg_expr(sb, "strncpy", 2, 3)}
    if len(re.findall(r"\bsocket\s*\(", sb)) != 1 or len(re.findall(r"\bsend\s*\(", sb)) != 1 or len(re.findall(r"\bconnect\s*\(", sb)) != 1:
        notes.append("translator: socketoutput.c does not have exactly one socket/connect/send call")
        ex = {k: None for k in ex}
    if re.search(r"\b(sendto|sendmsg|write|writev|recv|read|poll|select|fcntl|setsockopt|ioctl)\s*\(", sb):
        notes.append("translator: socketoutput.c uses a call outside socket/connect/send/close")
        ex = {k: None for k in ex}
    v.update(cpp_values(run, ex, includes=("sys/socket.h", "sys/un.h", "fcntl.h")))
    # ---- fileoutput.c
    fpp = preprocessed(run, "src/output/fileoutput.c")
    fb = reach(fpp, "snoopy_output_fileoutput") or ""
    fl = arg_expr(fb, "open", 1)
    if len(re.findall(r"\bopen\s*\(", fb)) != 1 or re.search(r"\b(fopen|fdopen|openat|creat)\s*\(", fb):
        notes.append("translator: fileoutput.c does not open its file with exactly one open() call")
        fl = None
    v.update(cpp_values(run, {"file_oflags": fl}, includes=("fcntl.h",)))
    for k, f, fn in (("devtty_path", "devttyoutput", "snoopy_output_devttyoutput"), ("devnull_path", "devnulloutput", "snoopy_output_devnulloutput")):
        b = func_body(strip_comments(run.src("src/output/%s.c" % f)), fn) or ""
        from .tr_output import fixed_path_arg
        v[k] = fixed_path_arg(run, "src/output/%s.c" % f, b)
    db = func_body(strip_comments(run.src("src/output/devlogoutput.c")), "snoopy_output_devlogoutput") or ""
    m = re.search(r"snoopy_output_socketoutput\s*\(\s*logMessageWithPrefix\s*,\s*" + STR + r"\s*\)", db)
    v["devlog_path"] = c_unescape(m.group(1)) if m else b""
    # ---- fopen modes
    v["mode_ini"] = fopen_mode(run, "lib/inih/src/ini.c", "snoopy_ini_parse", notes)
    v["mode_file"] = fopen_mode(run, "src/util/file.c", "snoopy_util_file_getSmallTextFileContent", notes)
    v["mode_rpname"] = fopen_mode(run, "src/datasource/rpname.c", "read_proc_property", notes)
    v["mode_spawns"] = fopen_mode(run, "src/filter/exclude_spawns_of.c", "find_ancestor_in_list", notes)
    v["mode_domain"] = fopen_mode(run, "src/datasource/domain.c", "snoopy_datasource_domain", notes)
    dpp = reach(preprocessed(run, "src/datasource/domain.c"), "snoopy_datasource_domain") or ""
    m = re.search(r"\bfopen\s*\(\s*" + STR + r"\s*,", dpp)
    v["hosts_path"] = c_unescape(m.group(1)) if m else b""
    # ---- util/file.c read loop
    ub = reach(preprocessed(run, "src/util/file.c"), "snoopy_util_file_getSmallTextFileContent") or ""
    m1 = re.search(r"while\s*\(\s*bytesReadTotal\s*<\s*(\d+)\s*\)", ub)
    m2 = re.search(r"bytesReadNow\s*=\s*fread\s*\(\s*contentPtr\s*\+\s*bytesReadTotal\s*,\s*1\s*,\s*(\d+)\s*,\s*fileHandle\s*\)", ub)
    m3 = re.search(r"bytesReadNow\s*<\s*(\d+)", ub)
    m4 = re.search(r"bytesReadTotal\s*\+=\s*bytesReadNow\s*;", ub)
    if m1 and m2 and m3 and m4 and m3.group(1) == m2.group(1) and len(re.findall(r"\bfread\s*\(", ub)) == 1:
        v["file_max"], v["file_fread"] = int(m1.group(1)), int(m2.group(1))
    else:
        notes.append("translator: read loop of util/file.c not recognised")
        v["file_max"], v["file_fread"] = 0, 0
    # ---- exclude_spawns_of.c
    eb = reach(preprocessed(run, "src/filter/exclude_spawns_of.c"), "find_ancestor_in_list") or ""
    m1 = re.search(r"fread\s*\(\s*st_buf\s*,\s*1\s*,\s*([^,]+),\s*statf\s*\)", eb)
    m2 = re.search(r"if\s*\(\s*rc\s*<\s*([^)]+)\)", eb)
    m3 = re.search(r"len\s*>=\s*([^)]+)\)", eb)
    sp = cpp_values(run, {"sp_read": m1.group(1) if m1 else None, "sp_min": m2.group(1) if m2 else None, "sp_comm_max": m3.group(1) if m3 else None}, includes=("stdio.h",))
    v.update(sp)
    rb = reach(preprocessed(run, "src/datasource/rpname.c"), "read_proc_property") or ""
    m = re.search(r"if\s*\(\s*vLen\s*>\s*(\d+)\s*\)", rb)
    v["rp_val_max"] = int(m.group(1)) if m else 0
    # ---- error.c guard (T1 reading; cross-checked against the T2 skeleton in the property file)
    hb = func_body(strip_comments(run.src("src/error.c")), "snoopy_error_handler") or ""
    v["err_guarded"] = bool(re.search(r"CFG->error_logging_enabled\s*=\s*SNOOPY_FALSE\s*;\s*snoopy_action_log_message_dispatch\s*\(\s*errorMsg\s*\)\s*;\s*CFG->error_logging_enabled\s*=\s*SNOOPY_TRUE\s*;", hb))
    mb = func_body(run.src("src/message.c"), "snoopy_message_append") or ""
    m = re.search(r"snoopy_error_handler\s*\(\s*" + STR + r"\s*\)", mb)
    v["err_msg_len"] = len(c_unescape(m.group(1))) if m else 0
    # ---- registries as compiled
    v["outputs_enabled"] = registry_names(run, "src/outputregistry.c", "snoopy_outputregistry_names")
    v["datasources_enabled"] = registry_names(run, "src/datasourceregistry.c", "snoopy_datasourceregistry_names")
    v["filters_enabled"] = registry_names(run, "src/filterregistry.c", "snoopy_filterregistry_names")
    ab = reach(preprocessed(run, "src/action/log-syscall-exec.c"), "snoopy_action_log_syscall_exec") or ""
    v["filtering_compiled"] = "snoopy_filtering_check_chain" in ab
    # ---- defaults of the configuration (for the harness: what is in force when the file cannot be read)
    d = cpp_strings(run, {"output": "SNOOPY_OUTPUT_DEFAULT", "output_arg": "SNOOPY_OUTPUT_DEFAULT_ARG", "message_format": "SNOOPY_MESSAGE_FORMAT",
                          "filter_chain": "SNOOPY_FILTER_CHAIN", "syslog_ident": "SNOOPY_SYSLOG_IDENT_FORMAT"}, includes=("snoopy.h",))
    dn = cpp_values(run, {"logmax": "SNOOPY_LOG_MESSAGE_MAX_LENGTH_DEFAULT", "dsmax": "SNOOPY_DATASOURCE_MESSAGE_MAX_LENGTH_DEFAULT",
                          "hardmin": "SNOOPY_LOG_MESSAGE_MAX_LENGTH_HARDMIN", "hardmax": "SNOOPY_LOG_MESSAGE_MAX_LENGTH_HARDMAX"}, includes=("snoopy.h",))
    cfgh = run.src("config.h")
    defaults = {"output": d["output"], "output_arg": d["output_arg"], "message_format": d["message_format"], "filter_chain": d["filter_chain"],
                "syslog_ident": d["syslog_ident"], "logmax": dn["logmax"] or 0, "dsmax": dn["dsmax"] or 0, "hardmin": dn["hardmin"] or 0, "hardmax": dn["hardmax"] or 0,
                "filtering": bool(re.search(r"^#define SNOOPY_CONF_FILTERING_ENABLED", cfgh, re.M)),
                "errlog": bool(re.search(r"^#define SNOOPY_CONF_ERROR_LOGGING_ENABLED", cfgh, re.M))}
    # ---- emit
    nums = ["b_af_unix", "b_sock_dgram", "b_sock_typemask", "b_sock_nonblock", "b_sock_cloexec", "b_msg_dontwait", "b_msg_nosignal",
            "b_o_accmode", "b_o_wronly", "b_o_creat", "b_o_append", "b_o_nonblock", "b_o_trunc",
            "sock_dom", "sock_ty", "send_flags", "sock_path_max", "file_oflags", "file_max", "file_fread", "sp_read", "sp_min", "sp_comm_max", "rp_val_max", "err_msg_len"]
    strs = ["devtty_path", "devnull_path", "devlog_path", "mode_ini", "mode_file", "mode_rpname", "mode_spawns", "mode_domain", "hosts_path"]
    lists = ["outputs_enabled", "datasources_enabled", "filters_enabled"]
    bools = ["err_guarded", "filtering_compiled"]
    fields, tsv = [], []
    for k in nums:
        if v.get(k) is None or v[k] < 0:
            notes.append("translator: could not read fault.%s from the source" % k)
            v[k] = 0
        fields.append("%s := %d%%N" % (k, v[k])); tsv.append("%s\t%d" % (k, v[k]))
    for k in strs:
        if v.get(k) is None:
            v[k] = b""
        fields.append("%s := %s" % (k, coq_bytes(v[k]))); tsv.append("%s\t%s" % (k, hexs(v[k])))
    for k in lists:
        if v.get(k) is None:
            notes.append("translator: registry %s not recognised" % k)
            v[k] = []
        fields.append("%s := [%s]" % (k, "; ".join(coq_bytes(x) for x in v[k]))); tsv.append("%s\t%s" % (k, ",".join(x.hex() for x in v[k]) or "[]"))
    for k in bools:
        fields.append("%s := %s" % (k, "true" if v[k] else "false")); tsv.append("%s\t%d" % (k, 1 if v[k] else 0))
    text = ("(* GENERATED from the current /repo working tree by vlib/tr_fault.py -- do not edit *)\n"
            "From Snoopy Require Import Lib.CStr Fault.Model.\nFrom Coq Require Import String List.\nImport ListNotations.\n"
            "Definition consts : fault_consts :=\n  {| %s |}.\n" % ";\n     ".join(fields))
    if objs is not None:
        oc = object_calls(objs, run)
        v["object_calls"] = oc
        text += "\nLocal Open Scope string_scope.\nDefinition object_calls : list (string * list string) :=\n  [%s].\n" % ";\n   ".join(
            "(%s, [%s])" % (q(k), "; ".join(q(s) for s in oc[k])) for k in sorted(oc))
    run.write_gen("Gen_Fault.v", text)
    emit_fault_skeletons(run)
    # the model driver needs the expansion constants as well
    ex_tsv = os.path.join(run.scratch, "consts_expand.tsv")
    extra = open(ex_tsv).read() if os.path.exists(ex_tsv) else ""
    open(os.path.join(run.scratch, "consts_fault.tsv"), "w").write("\n".join(tsv) + "\n" + extra)
    v["defaults"] = defaults
    # everything the check needs AFTER the proof step goes through run.consts (JSON-able): when an obligation is broken, vlib/core.py
    # replaces it in place by the reference copy, and the search runs against the constants the theorems were proved for
    js = {}
    for k, x in v.items():
        if k == "object_calls":
            continue
        if k == "defaults":
            js[k] = {dk: (dx.hex() if isinstance(dx, bytes) else dx) for dk, dx in x.items()}
        elif isinstance(x, bytes):
            js[k] = x.hex()
        elif isinstance(x, list):
            js[k] = [y.hex() for y in x]
        else:
            js[k] = x
    run.consts["fault"] = js
    return v


BYTES_KEYS = ("devtty_path", "devnull_path", "devlog_path", "mode_ini", "mode_file", "mode_rpname", "mode_spawns", "mode_domain", "hosts_path")
LIST_KEYS = ("outputs_enabled", "datasources_enabled", "filters_enabled")
DEFAULT_BYTES = ("output", "output_arg", "message_format", "filter_chain", "syslog_ident")


def fault_values(run):
    """the python-typed view of run.consts["fault"] (regenerated, or the reference copy after a broken obligation)"""
    js = run.consts["fault"]
    v = dict(js)
    for k in BYTES_KEYS:
        v[k] = bytes.fromhex(js.get(k, ""))
    for k in LIST_KEYS:
        v[k] = [bytes.fromhex(y) for y in js.get(k, [])]
    d = dict(js.get("defaults", {}))
    for k in DEFAULT_BYTES:
        d[k] = bytes.fromhex(d.get(k, ""))
    v["defaults"] = d
    return v
