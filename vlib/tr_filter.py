"""T1/AST translator for the filter chain and the uid filters (C07, C14) -> Gen_Filter.v, consts_filter.{json,tsv}.

filtering.c      buffer sizes, strncpy bound, terminator index, delimiter literals, name-copy pattern   (regex + gcc for values)
filterregistry.c the two arrays as they survive the preprocessor under the current config.h           (gcc -E)
snoopy.h         PASS/DROP/TRUE values, compiled-in default chain                                       (gcc)
lib/inih         INI_MAX_LINE as compiled                                                              (Makefile.am / ini.h)
filter/*.c       which id query each uid filter calls, the conversion function and the chain of C casts
                 between its result and the comparison, the compared constant of only_root            (clang AST)
util/parser.c    the delimiter character of csvToArgList                                               (regex)
Anything not recognised is rendered as a value that makes filter_consts_ok false."""
import json, os, re, subprocess
from .core import coq_bytes, hexs, hexlist, CheckError
from .translate import strip_comments, func_body, c_unescape, cpp_value, STR
from .skel import clang_ast, functions, strip

FIMPL = {"snoopy_filter_only_uid": ("FOnlyUid", 1), "snoopy_filter_exclude_uid": ("FExcludeUid", 2), "snoopy_filter_only_root": ("FOnlyRoot", 3),
         "snoopy_filter_only_tty": ("FOnlyTty", 4), "snoopy_filter_exclude_spawns_of": ("FExcludeSpawnsOf", 5), "snoopy_filter_noop": ("FNoop", 6)}
IDQ = {"getuid": "QGetuid", "geteuid": "QGeteuid"}
IDQ_FAMILY = re.compile(r"^(get[re]?[ug]id|getres[ug]id|getlogin(_r)?|cuserid|getpw.*|getsid|getpgrp|getpgid|getpid|getppid)$")
CONV = {"atol": "ConvAtol", "atoi": "ConvAtoi"}
INT_TYPES = {"int": ("s", 32), "unsigned int": ("u", 32), "long": ("s", 64), "unsigned long": ("u", 64), "short": ("s", 16), "unsigned short": ("u", 16),
             "long long": ("s", 64), "unsigned long long": ("u", 64), "char": ("s", 8), "signed char": ("s", 8), "unsigned char": ("u", 8)}


def cpp_string(run, expr, includes=("snoopy.h",)):
    """bytes of a string-valued macro expression, or None"""
    prog = "".join('#include "%s"\n' % i for i in includes) + "#include <stdio.h>\nint main(){const char*s=(%s);for(;*s;s++)printf(\"%%02x\",(unsigned char)*s);return 0;}\n" % expr
    exe = os.path.join(run.scratch, "cppstr")
    p = subprocess.run(["gcc", "-x", "c", "-", "-o", exe, "-I" + run.tree, "-I" + os.path.join(run.tree, "src"), "-DHAVE_CONFIG_H", "-w"],
                       input=prog, text=True, stdout=subprocess.PIPE, stderr=subprocess.STDOUT)
    if p.returncode != 0:
        return None
    return bytes.fromhex(subprocess.run([exe], stdout=subprocess.PIPE, text=True).stdout.strip())


def registry_rows(run):
    """(names incl. sentinel, function symbols) of filterregistry.c after preprocessing with the current config.h"""
    p = subprocess.run(["gcc", "-E", "-P", "-DHAVE_CONFIG_H", "-I" + run.tree, "-I" + os.path.join(run.tree, "src"), os.path.join(run.tree, "src/filterregistry.c")],
                       stdout=subprocess.PIPE, stderr=subprocess.PIPE, text=True)
    if p.returncode != 0:
        return None, None
    txt = p.stdout
    m1 = re.search(r"snoopy_filterregistry_names\s*\[\s*\]\s*=\s*\{(.*?)\}\s*;", txt, re.S)
    m2 = re.search(r"snoopy_filterregistry_ptrs\s*\[\s*\]\s*\)\s*\([^)]*\)\s*=\s*\{(.*?)\}\s*;", txt, re.S)
    if not (m1 and m2):
        return None, None
    names = [c_unescape(x) for x in re.findall(STR, m1.group(1))]
    if re.sub(STR, "", m1.group(1)).replace(",", "").strip():
        return None, None          # something else than string literals in the array
    ptrs = [x.strip() for x in m2.group(1).split(",") if x.strip()]
    return names, ptrs


def walk(n):
    yield n
    for c in n.get("inner", []) or []:
        if isinstance(c, dict):
            yield from walk(c)


def callee_name(call):
    inner = call.get("inner", [])
    if not inner:
        return None
    cal = strip(inner[0])
    if cal.get("kind") == "DeclRefExpr" and cal.get("referencedDecl", {}).get("kind") == "FunctionDecl":
        return cal["referencedDecl"]["name"]
    return None


def dtype(n):
    t = n.get("type", {})
    return t.get("desugaredQualType", t.get("qualType", "?")).replace("const ", "").strip()


def var_of(n):
    """variable name when n is (an lvalue-to-rvalue load of) a plain variable reference without integral conversion"""
    while n.get("kind") in ("ParenExpr",) or (n.get("kind") == "ImplicitCastExpr" and n.get("castKind") in ("LValueToRValue", "NoOp")):
        n = n["inner"][0]
    if n.get("kind") == "DeclRefExpr":
        return n.get("referencedDecl", {}).get("name")
    return None


def cast_chain(n):
    """from an expression down to a call: ([(sign, bits) innermost first], callee name) or (None, None)"""
    chain = []
    while True:
        k = n.get("kind")
        if k == "ParenExpr":
            n = n["inner"][0]
        elif k in ("ImplicitCastExpr", "CStyleCastExpr"):
            ck = n.get("castKind")
            if ck == "IntegralCast":
                t = INT_TYPES.get(dtype(n))
                if not t:
                    return None, None
                chain.append(t)
            elif ck not in ("NoOp", "LValueToRValue", "FunctionToPointerDecay"):
                return None, None
            n = n["inner"][0]
        elif k == "CallExpr":
            return list(reversed(chain)), callee_name(n)
        else:
            return None, None


def assignments(fnode):
    """(variable, right-hand side) of every `v = e;` and of every initialised declaration `T v = e;` in a function"""
    for n in walk(fnode):
        if n.get("kind") == "BinaryOperator" and n.get("opcode") == "=":
            lv = var_of(n["inner"][0])
            if lv:
                yield lv, n["inner"][1]
        elif n.get("kind") == "VarDecl" and n.get("init") and n.get("inner"):
            ex = [c for c in n["inner"] if isinstance(c, dict) and (c.get("kind", "").endswith("Expr") or c.get("kind", "").endswith("Literal") or c.get("kind", "").endswith("Operator"))]
            if ex and "name" in n:
                yield n["name"], ex[-1]


def with_static_helpers(tu, fn):
    """the function and the file-local static functions it calls (transitively): {name: node}, and the parameter bindings
    [((helper, parameter), (caller, argument variable))] of those calls whose argument is a plain variable"""
    fns = functions(tu)
    if fn not in fns:
        return {}, []
    statics = {k: v for k, v in fns.items() if v.get("storageClass") == "static"}
    group, binds, todo = {fn: fns[fn]}, [], [fn]
    while todo:
        cur = todo.pop()
        for n in walk(group[cur]):
            if n.get("kind") != "CallExpr":
                continue
            cal = callee_name(n)
            if cal in statics:
                params = [c["name"] for c in statics[cal].get("inner", []) if c.get("kind") == "ParmVarDecl" and "name" in c]
                for pn, arg in zip(params, n["inner"][1:]):
                    av = var_of(arg)
                    if av:
                        binds.append(((cal, pn), (cur, av)))
                if cal not in group:
                    group[cal] = statics[cal]
                    todo.append(cal)
    return group, binds


def uid_filter_facts(run, rel, fn, notes):
    """id query, conversion function, cast chain (ending with the type of the compared variable) of a list filter.
    Looks through file-local static helpers (a parameter is the variable passed for it) and treats an initialised declaration
    like an assignment, so that extracting the membership loop or merging declaration and assignment changes nothing."""
    out = {"query": "QOther", "conv": "ConvOther", "casts": []}
    tu = clang_ast(run, rel)
    group, binds = with_static_helpers(tu, fn)
    if not group:
        notes.append("translator: %s not found" % fn)
        return out
    # variables are (function, name); a helper's parameter belongs to the class of the variable passed for it
    parent = {}

    def find(x):
        while parent.get(x, x) != x:
            x = parent[x]
        return x
    for a, b in binds:
        parent[find(a)] = find(b)
    vtypes = {}
    for g, node in group.items():
        for n in walk(node):
            if n.get("kind") in ("VarDecl", "ParmVarDecl") and "name" in n:
                vtypes[(g, n["name"])] = dtype(n)
    calls = [callee_name(n) for node in group.values() for n in walk(node) if n.get("kind") == "CallExpr"]
    idq = sorted(set(c for c in calls if c and IDQ_FAMILY.match(c)))
    # the id query must be stored unconverted in an unsigned 32-bit variable
    cur = item = None
    for g, node in group.items():
        for lv, rhs in assignments(node):
            ch, cal = cast_chain(rhs)
            if cal in IDQ and ch == [] and INT_TYPES.get(vtypes.get((g, lv))) == ("u", 32):
                cur = ((g, lv), cal)
            elif ch is not None and cal and cal not in IDQ and (cal in CONV or cal.startswith("strto") or cal.startswith("ato")):
                item = ((g, lv), ch, cal)       # the converted item: <var> = casts(conv(...))
    if len(idq) == 1 and cur and cur[1] == idq[0]:
        out["query"] = IDQ[idq[0]]
    else:
        notes.append("translator: %s: id query not recognised (calls %s; expected one of getuid/geteuid stored unconverted in a uid_t variable)" % (fn, idq))
    # ... compared by == with (a variable standing for) the id variable, both of the same type
    cmp_ok = False
    if item and cur:
        for g, node in group.items():
            for n in walk(node):
                if n.get("kind") == "BinaryOperator" and n.get("opcode") == "==":
                    a, b = var_of(n["inner"][0]), var_of(n["inner"][1])
                    if a and b:
                        ca, cb = find((g, a)), find((g, b))
                        if {ca, cb} == {find(item[0]), find(cur[0])} and ca != cb and vtypes.get((g, a)) == vtypes.get((g, b)):
                            cmp_ok = True
    if item and cmp_ok:
        out["conv"] = CONV.get(item[2], "ConvOther")
        vt = INT_TYPES.get(vtypes.get(item[0]))
        chain = list(item[1])
        # the assignment converts to the variable's type (clang shows it as the outermost IntegralCast); make sure the chain ends there
        if not chain or chain[-1] != vt:
            chain.append(vt)
        out["casts"] = chain
    else:
        notes.append("translator: %s: statement `<uid_t variable> = (casts) atol(<item>)` compared with == to the id variable not recognised%s"
                     % (fn, "" if item else " (no conversion call assigned to a variable)"))
    return out


def root_facts(run, notes):
    """only_root: the id query and the constant it is compared with (== or !=; which branch passes is the correspondence's matter).
    The query may be used directly in the comparison or be stored, unconverted, in a uid_t variable first."""
    out = {"query": "QOther", "value": -1}
    tu = clang_ast(run, "src/filter/only_root.c")
    group, _ = with_static_helpers(tu, "snoopy_filter_only_root")
    if not group:
        notes.append("translator: snoopy_filter_only_root not found")
        return out
    calls = [callee_name(n) for node in group.values() for n in walk(node) if n.get("kind") == "CallExpr"]
    idq = sorted(set(c for c in calls if c and IDQ_FAMILY.match(c)))

    def literal(n):
        while n.get("kind") in ("ImplicitCastExpr", "ParenExpr", "CStyleCastExpr") and n.get("inner"):
            n = n["inner"][0]
        return n if n.get("kind") == "IntegerLiteral" else None
    for g, node in group.items():
        vtypes = {n["name"]: dtype(n) for n in walk(node) if n.get("kind") in ("VarDecl", "ParmVarDecl") and "name" in n}
        idvars = set()
        for lv, rhs in assignments(node):
            ch, cal = cast_chain(rhs)
            if cal in IDQ and ch == [] and INT_TYPES.get(vtypes.get(lv)) == ("u", 32):
                idvars.add(lv)
        for n in walk(node):
            if n.get("kind") == "BinaryOperator" and n.get("opcode") in ("==", "!="):
                sides = n["inner"]
                lit = [literal(x) for x in sides if literal(x) is not None]
                direct = [x for x in sides if cast_chain(x)[1] in IDQ and cast_chain(x)[0] == []]
                viavar = [x for x in sides if var_of(x) in idvars]
                if lit and (direct or viavar) and len(idq) == 1:
                    out["query"] = IDQ[idq[0]]
                    out["value"] = int(lit[0].get("value", "-1"))
    if out["query"] == "QOther":
        notes.append("translator: only_root.c: comparison (== / !=) of an integer literal with the id query (direct, or stored unconverted in a uid_t variable) not recognised (calls %s)" % idq)
    return out


def tr_filter(run):
    notes = run.notes
    v = {}
    src = strip_comments(run.src("src/filtering.c"))
    body = func_body(src, "snoopy_filtering_check_chain") or ""
    inc = ("limits.h", "snoopy.h")

    def val(expr):
        return cpp_value(run, expr, includes=inc) if expr else None
    # The statements are recognised by their SHAPE; the names of the locals are read from them (renaming a local changes nothing).
    W, NULCH = r"(\w+)", r"(?:'\\0'|0)"
    sig = re.search(r"snoopy_filtering_check_chain\s*\(([^)]*)\)\s*\{", src)
    param = re.findall(r"\w+", sig.group(1))[-1] if sig and re.findall(r"\w+", sig.group(1)) else "filterChain"

    def arr(name):
        m = re.search(r"\bchar\s+" + re.escape(name) + r"\s*\[([^\]]+)\]", body) if name else None
        return val(m.group(1)) if m else None
    # strncpy(<copy>, <parameter>, <n>);  <copy>[<idx>] = 0;  char <copy>[<size>]
    m = re.search(r"strncpy\s*\(\s*" + W + r"\s*,\s*" + re.escape(param) + r"\s*,\s*([^;]+?)\)\s*;", body)
    copybuf = m.group(1) if m else None
    v["copy_n"] = val(m.group(2)) if m else None
    v["chain_max"] = arr(copybuf)
    m = re.search(re.escape(copybuf) + r"\s*\[([^\]]+)\]\s*=\s*" + NULCH + r"\s*;", body) if copybuf else None
    v["term_idx"] = val(m.group(1)) if m else None
    if not copybuf:
        notes.append("translator: filtering.c: `strncpy(<buffer>, %s, <n>)` (the chain copy) not recognised" % param)
    # <spec> = strtok_r(<str>, ";", &<save>)
    m = re.search(W + r"\s*=\s*strtok_r\s*\(\s*\w+\s*,\s*" + STR + r"\s*,\s*&\s*\w+\s*\)", body)
    spec = m.group(1) if m else None
    v["chain_delim"] = c_unescape(m.group(2)) if m else None
    if not spec:
        notes.append("translator: filtering.c: `<spec> = strtok_r(<str>, \";\", &<save>)` not recognised")
    # <colon> = strstr(<spec>, ":")  |  strchr(<spec>, ':')
    colon = None
    if spec:
        m = re.search(W + r"\s*=\s*strstr\s*\(\s*" + re.escape(spec) + r"\s*,\s*" + STR + r"\s*\)", body)
        mc = re.search(W + r"\s*=\s*strchr\s*\(\s*" + re.escape(spec) + r"\s*,\s*'((?:\\.|[^'\\])+)'\s*\)", body)
        mm = m or mc
        colon = mm.group(1) if mm else None
        v["name_delim"] = c_unescape(mm.group(2)) if mm else None
    else:
        v["name_delim"] = None
    # the name copy: <k> = <colon> - <spec>; strncpy(<name>, <spec>, <k>); <name>[<k>] = 0; <argptr> = <colon> + 1
    namebuf = None
    if spec and colon:
        mk = re.search(W + r"\s*=\s*(?:\(\s*size_t\s*\)\s*)?\(?\s*" + re.escape(colon) + r"\s*-\s*" + re.escape(spec) + r"\s*\)?\s*;", body)
        k = mk.group(1) if mk else None
        mn = re.search(r"strncpy\s*\(\s*" + W + r"\s*,\s*" + re.escape(spec) + r"\s*,\s*" + re.escape(k) + r"\s*\)\s*;", body) if k else None
        namebuf = mn.group(1) if mn else None
        ok_term = bool(namebuf and re.search(re.escape(namebuf) + r"\s*\[\s*" + re.escape(k) + r"\s*\]\s*=\s*" + NULCH + r"\s*;", body))
        ok_arg = bool(re.search(r"\w+\s*=\s*" + re.escape(colon) + r"\s*\+\s*1\s*;", body))
        if not (k and namebuf and ok_term and ok_arg):
            notes.append("translator: filtering.c name/argument split not recognised: expected `<k> = %s - %s; strncpy(<name>, %s, <k>); <name>[<k>] = '\\0'; <arg> = %s + 1;` (found k=%s name=%s terminator=%s arg=%s)"
                         % (colon, spec, spec, colon, k, namebuf, ok_term, ok_arg))
            namebuf = None
    else:
        notes.append("translator: filtering.c: `<colon> = strstr(<spec>, \":\")` not recognised")
    v["name_max"] = arr(namebuf)
    # the buffer that holds the empty argument of an element without ':' : the other char array whose first byte is cleared
    argbuf = [x for x in re.findall(W + r"\s*\[\s*0\s*\]\s*=\s*" + NULCH + r"\s*;", body) if x not in (namebuf, copybuf)]
    v["arg_max"] = arr(argbuf[0]) if argbuf else None
    # INI_MAX_LINE as compiled into lib/inih
    ini = None
    for d in run.inih_defs():
        mm = re.match(r"-DINI_MAX_LINE=(\d+)", d)
        if mm:
            ini = int(mm.group(1))
    if ini is None:
        mm = re.search(r"#\s*define\s+INI_MAX_LINE\s+(\d+)", run.src("lib/inih/src/ini.h"))
        ini = int(mm.group(1)) if mm else None
    v["ini_max_line"] = ini
    enabled = cpp_value(run, "VERIF_FE", includes=inc, extra_src="#ifdef SNOOPY_FILTERING_ENABLED\n#define VERIF_FE 1\n#else\n#define VERIF_FE 0\n#endif\n")
    v["default_chain"] = cpp_string(run, "SNOOPY_FILTER_CHAIN") if enabled else b""
    names, ptrs = registry_rows(run)
    if names is None:
        notes.append("translator: filterregistry.c arrays not recognised")
        names, ptrs = [], []
    v["reg_names"] = names
    v["reg_ptrs"] = ptrs
    v["pass_val"] = val("SNOOPY_FILTER_PASS")
    v["drop_val"] = val("SNOOPY_FILTER_DROP")
    v["true_val"] = val("SNOOPY_TRUE")
    v["long_bits"] = cpp_value(run, "sizeof(long)*8")
    v["uid_bits"] = cpp_value(run, "sizeof(uid_t)*8*((uid_t)-1 > 0 ? 1 : 0)", includes=("sys/types.h",))
    fo = uid_filter_facts(run, "src/filter/only_uid.c", "snoopy_filter_only_uid", notes)
    fe = uid_filter_facts(run, "src/filter/exclude_uid.c", "snoopy_filter_exclude_uid", notes)
    fr = root_facts(run, notes)
    par = strip_comments(run.src("src/util/parser.c"))
    pb = func_body(par, "snoopy_util_parser_csvToArgList") or ""
    # the character counted and the character searched for must be one and the same literal (variable names are free)
    lit = r"'((?:\\.|[^'\\])+)'"
    m1 = re.findall(r"snoopy_util_string_countChars\s*\(\s*\w+\s*,\s*" + lit + r"\s*\)", pb)
    m2 = re.findall(r"\bstrchr\s*\(\s*\w+\s*,\s*" + lit + r"\s*\)", pb)
    d = c_unescape(m1[0]) if m1 and m2 and len(set(m1 + m2)) == 1 else b"\x00"
    if len(d) != 1:
        d = b"\x00"
    if d == b"\x00":
        notes.append("translator: parser.c csvToArgList: `snoopy_util_string_countChars(<raw>, ',')` and `strchr(<pos>, ',')` with one and the same character literal not recognised")
    v["csv_delim"] = d

    def num(k, bad=0):
        if v.get(k) is None:
            notes.append("translator: could not read filter.%s from the source" % k)
            return bad
        return v[k]

    def byt(k):
        if v.get(k) is None:
            notes.append("translator: could not read filter.%s from the source" % k)
            return b""
        return v[k]
    casts_coq = lambda l: "[" + "; ".join("Cast%s %d" % (s.upper(), b) for (s, b) in l) + "]"
    casts_tsv = lambda l: ",".join("%s%d" % (s, b) for (s, b) in l) or "[]"
    ptr_coq = [FIMPL.get(p, ("FOther", 0))[0] for p in v["reg_ptrs"]]
    ptr_tag = [str(FIMPL.get(p, ("FOther", 0))[1]) for p in v["reg_ptrs"]]
    # unreadable numbers: 0 for sizes (consts_ok false), pass = drop for the verdict values
    pv, dv, tv = v.get("pass_val"), v.get("drop_val"), v.get("true_val")
    if pv is None or dv is None or tv is None:
        notes.append("translator: PASS/DROP/TRUE values not readable")
        pv = dv = tv = 0
    fields = [
        "chain_max := %d" % num("chain_max"), "copy_n := %d" % num("copy_n", 10 ** 9), "term_idx := %d" % num("term_idx", 10 ** 9),
        "name_max := %d" % num("name_max"), "arg_max := %d" % num("arg_max"),
        "chain_delim := %s" % coq_bytes(byt("chain_delim")), "name_delim := %s" % coq_bytes(byt("name_delim")),
        "ini_max_line := %d" % num("ini_max_line", 10 ** 9), "default_chain := %s" % coq_bytes(byt("default_chain")),
        "reg_names := [%s]" % "; ".join(coq_bytes(n) for n in v["reg_names"]), "reg_ptrs := [%s]" % "; ".join(ptr_coq),
        "pass_val := (%d)%%Z" % pv, "drop_val := (%d)%%Z" % dv, "true_val := (%d)%%Z" % tv,
        "long_bits := %d" % num("long_bits"), "uid_bits := %d" % num("uid_bits"),
        "only_query := %s" % fo["query"], "exclude_query := %s" % fe["query"], "root_query := %s" % fr["query"],
        "only_conv := %s" % fo["conv"], "exclude_conv := %s" % fe["conv"],
        "only_casts := %s" % casts_coq(fo["casts"]), "exclude_casts := %s" % casts_coq(fe["casts"]),
        "root_value := (%d)%%Z" % fr["value"], "csv_delim := x%02x" % v["csv_delim"][0],
    ]
    run.write_gen("Gen_Filter.v", "(* GENERATED from the current /repo working tree by vlib/tr_filter.py -- do not edit *)\n"
                  "From Snoopy Require Import Lib.CStr Filter.Model.\nLocal Open Scope N_scope.\nDefinition consts : filter_consts :=\n  {| %s |}.\n" % ";\n     ".join(fields))
    qn = {"QGetuid": "getuid", "QGeteuid": "geteuid", "QOther": "other"}
    cn = {"ConvAtol": "atol", "ConvAtoi": "atoi", "ConvOther": "other"}
    tsv = {"chain_max": num("chain_max"), "copy_n": num("copy_n", 10 ** 9), "term_idx": num("term_idx", 10 ** 9), "name_max": num("name_max"), "arg_max": num("arg_max"),
           "chain_delim": hexs(byt("chain_delim")), "name_delim": hexs(byt("name_delim")), "ini_max_line": num("ini_max_line", 10 ** 9),
           "default_chain": hexs(byt("default_chain")), "reg_names": hexlist(v["reg_names"]), "reg_ptrs": ",".join(ptr_tag) or "[]",
           "pass_val": pv, "drop_val": dv, "true_val": tv, "long_bits": num("long_bits"), "uid_bits": num("uid_bits"),
           "only_query": qn[fo["query"]], "exclude_query": qn[fe["query"]], "root_query": qn[fr["query"]],
           "only_conv": cn[fo["conv"]], "exclude_conv": cn[fe["conv"]], "only_casts": casts_tsv(fo["casts"]), "exclude_casts": casts_tsv(fe["casts"]),
           "root_value": fr["value"], "csv_delim": hexs(v["csv_delim"])}
    open(os.path.join(run.scratch, "consts_filter.tsv"), "w").write("".join("%s\t%s\n" % kv for kv in tsv.items()))
    js = dict(tsv)
    js["reg_names_list"] = [n.decode("latin1") for n in v["reg_names"]]
    js["reg_ptr_syms"] = list(v["reg_ptrs"])
    json.dump(js, open(os.path.join(run.scratch, "consts_filter.json"), "w"), indent=1)
    run.consts["filter"] = js
    return js
