"""T2 translator for the configuration life cycle (C11) and the resource-flow analysis (C16).

Extends vlib/skel.py (without touching it): assignments used as expressions become  XOp "=" [lhs; rhs],
compound assignments  XOp "+=" ...,  forward `goto L` to a label at the top level of the function body is
replaced by the statements from that label to the end of the function (exact for forward jumps), a label is
its own statement.  Everything else unrecognised stays XOther / SOther as before.

Gen_CfgLife.v : the configuration record's fields (clang AST of configuration.h), the skeletons of ctor / dtor /
                setDefaults / setUninitialized / get (thread-safe AND non-thread-safe build) / load / callback, the option
                registry (name -> value parser skeleton), tsrm's thread-record functions.
Gen_Resid.v   : every function of the library: name, direct callees (complete, from the raw AST), whether it calls through
                a pointer, its skeleton when it touches resources; address-taken functions; call order (callees first).
"""
import json, os, re, subprocess
from concurrent.futures import ThreadPoolExecutor
from .core import CheckError, NCPU
from .skel import Fn, functions, q, strip


def clang_ast2(run, relpath, shadow=None, filt=None):
    cmd = ["clang", "-std=c99", "-fsyntax-only", "-w", "-DHAVE_CONFIG_H", "-DA2O_SNOOPY_VERIF"]
    if shadow:
        cmd += ["-I" + shadow]
    cmd += ["-I" + run.tree, "-I" + os.path.join(run.tree, "src")] + run.inih_defs() + ["-Xclang", "-ast-dump=json"]
    if filt:
        cmd += ["-Xclang", "-ast-dump-filter=" + filt]
    cmd += [os.path.join(run.tree, relpath)]
    p = subprocess.run(cmd, stdout=subprocess.PIPE, stderr=subprocess.PIPE, text=True)
    if p.returncode != 0:
        raise CheckError("clang failed on %s: %s" % (relpath, p.stderr[-2000:]))
    return json.loads(p.stdout)


def nts_shadow(run):
    """include dir whose config.h has thread safety switched off (what ./configure --disable-thread-safety produces)"""
    d = os.path.join(run.scratch, "cfg-nts")
    if not os.path.isdir(d):
        os.makedirs(d)
        cfg = re.sub(r"^#define SNOOPY_CONF_THREAD_SAFETY_ENABLED.*$", "/* #undef SNOOPY_CONF_THREAD_SAFETY_ENABLED */", run.src("config.h"), flags=re.M)
        open(os.path.join(d, "config.h"), "w").write(cfg)
    return d


class LifeFn(Fn):
    def __init__(self, node, statics=None, subst=None, depth=0):
        super().__init__(node, statics, subst, depth)
        self.top = self.body.get("inner", [])
        self.labels = {}
        for i, st in enumerate(self.top):
            if st.get("kind") == "LabelStmt":
                self.labels[st.get("declId")] = i
        self.gdepth = 0

    def _inlinable(self, call):
        """as in skel.Fn, but the inlined helper is translated with this class's extensions as well"""
        r = super()._inlinable(call)
        if r is None:
            return None
        h, stmts, ret = r
        h2 = LifeFn(h.node, self.statics, None, self.depth + 1)
        h2.subst = h.subst
        h2.params = []
        return h2, stmts, ret

    def expr(self, n):
        n0 = strip(n)
        k = n0.get("kind")
        if k == "BinaryOperator" and n0.get("opcode") == "=":
            return "(XOp %s [%s; %s])" % (q("="), self.expr(n0["inner"][0]), self.expr(n0["inner"][1]))
        if k == "CompoundAssignOperator":
            return "(XOp %s [%s; %s])" % (q(n0.get("opcode", "?=")), self.expr(n0["inner"][0]), self.expr(n0["inner"][1]))
        if k == "StringLiteral":
            r = super().expr(n)
            if r.startswith("(XOther"):
                import hashlib
                return "(XStr %s)" % q("<literal with non-printable bytes #%s>" % hashlib.sha1(str(n0.get("value", "")).encode()).hexdigest()[:10])
            return r
        if k == "BinaryOperator" and n0.get("opcode") == ",":
            return "(XOther %s)" % q("comma operator")
        return super().expr(n)

    def stmt(self, n):
        k = n.get("kind")
        if k == "LabelStmt":
            inner = n.get("inner", [])
            return "(SSeq %s)" % ("[" + ";\n ".join(self.stmt(c) for c in inner) + "]")
        if k == "GotoStmt":
            tgt = n.get("targetLabelDeclId")
            if tgt in self.labels and self.gdepth < 3:
                self.gdepth += 1
                rest = self.top[self.labels[tgt]:]
                out = "(SSeq [" + ";\n ".join(self.stmt(c) for c in rest) + "])"
                self.gdepth -= 1
                return out
            return "(SOther %s)" % q("goto to a label that is not at the top level of the function")
        if k == "BinaryOperator" and n.get("opcode") == "=":
            return super().stmt(n)
        if k in ("BinaryOperator", "CompoundAssignOperator", "ConditionalOperator", "MemberExpr", "DeclRefExpr"):
            return "(SExpr %s)" % self.expr(n)
        return super().stmt(n)


def all_callees(node, out, ind):
    """complete list of directly called function names below `node` (raw AST, nothing dropped)"""
    if node.get("kind") == "CallExpr" and node.get("inner"):
        callee = strip(node["inner"][0])
        if callee.get("kind") == "DeclRefExpr" and callee.get("referencedDecl", {}).get("kind") == "FunctionDecl":
            out.add(callee["referencedDecl"]["name"])
        else:
            ind.append(1)
    for c in node.get("inner", []) or []:
        if isinstance(c, dict):
            all_callees(c, out, ind)


def addr_taken(node, out, in_call_pos=False):
    """names of functions whose designator is used other than as the callee of a direct call"""
    k = node.get("kind")
    if k == "DeclRefExpr" and node.get("referencedDecl", {}).get("kind") == "FunctionDecl" and not in_call_pos:
        out.add(node["referencedDecl"]["name"])
    inner = node.get("inner", []) or []
    for i, c in enumerate(inner):
        if not isinstance(c, dict):
            continue
        pos = False
        if k == "CallExpr" and i == 0:
            cc = strip(c)
            pos = cc.get("kind") == "DeclRefExpr"
            if pos:
                continue
        addr_taken(c, out, False)


def record_writes(node, typename, out):
    """fields of the record `typename` assigned (=, op=, ++, --) below `node`"""
    k = node.get("kind")
    tgt = None
    if k in ("BinaryOperator", "CompoundAssignOperator") and (k == "CompoundAssignOperator" or node.get("opcode") == "=") and node.get("inner"):
        tgt = strip(node["inner"][0])
    elif k == "UnaryOperator" and node.get("opcode") in ("++", "--") and node.get("inner"):
        tgt = strip(node["inner"][0])
    if tgt is not None and tgt.get("kind") == "MemberExpr" and tgt.get("inner"):
        bt = tgt["inner"][0].get("type", {}).get("qualType", "")
        if typename in bt:
            out.add(tgt.get("name", "?"))
    for c in node.get("inner", []) or []:
        if isinstance(c, dict):
            record_writes(c, typename, out)


def statics_of(tu):
    """the file-local static functions of a translation unit (candidates for inlining, see skel.Fn)"""
    return {k: v for k, v in functions(tu).items() if v.get("storageClass") == "static" and not k.startswith("__")}


def skel_term(fnnode, statics=None):
    f = LifeFn(fnnode, statics)
    return len(f.params), f.stmts(f.body)


def emit_fn(ident, name, nparams, body):
    return "Definition %s : fn_skel := {| sk_name := %s; sk_nparams := %d; sk_body :=\n %s |}.\n" % (ident, q(name), nparams, body)


HEADER = ["From Coq Require Import String ZArith List.", "From Snoopy Require Import Lib.Skel.", "Import ListNotations.", "Local Open Scope string_scope.", ""]

CFG_ITEMS = [
    ("sk_cfg_ctor", "src/configuration.c", "snoopy_configuration_ctor"),
    ("sk_cfg_dtor", "src/configuration.c", "snoopy_configuration_dtor"),
    ("sk_cfg_defaults", "src/configuration.c", "snoopy_configuration_setDefaults"),
    ("sk_cfg_uninit", "src/configuration.c", "snoopy_configuration_setUninitialized"),
    ("sk_cfg_get_ts", "src/configuration.c", "snoopy_configuration_get"),
    ("sk_cfg_load", "src/configfile.c", "snoopy_configfile_load"),
    ("sk_cfg_callback", "src/configfile.c", "snoopy_configfile_iniParser_callback"),
    ("sk_tsrm_new", "src/tsrm.c", "snoopy_tsrm_createNewThreadData"),
    ("sk_tsrm_ctor", "src/tsrm.c", "snoopy_tsrm_ctor"),
    ("sk_tsrm_dtor", "src/tsrm.c", "snoopy_tsrm_dtor"),
        ("sk_life_init_ts", "src/init-deinit.c", "snoopy_init"),
    ("sk_life_cleanup_ts", "src/init-deinit.c", "snoopy_cleanup"),
]
NTS_ITEMS = [
    ("sk_cfg_get_nts", "src/configuration.c", "snoopy_configuration_get"),
    ("sk_life_init_nts", "src/init-deinit.c", "snoopy_init"),
    ("sk_life_cleanup_nts", "src/init-deinit.c", "snoopy_cleanup"),
]


def record_fields(tu, typedef_name):
    """[(field, is_char_pointer)] of the struct behind `typedef struct {...} <typedef_name>`"""
    recs = {}
    want = None
    for n in tu.get("inner", []):
        if n.get("kind") == "RecordDecl":
            recs[n.get("id")] = n
        if n.get("kind") == "TypedefDecl" and n.get("name") == typedef_name:
            # the typedef's inner ElaboratedType -> RecordType -> decl id
            def find(x):
                if isinstance(x, dict):
                    if x.get("kind") == "RecordType" and x.get("decl", {}).get("id"):
                        return x["decl"]["id"]
                    for c in x.get("inner", []) or []:
                        r = find(c)
                        if r:
                            return r
                    if x.get("ownedTagDecl", {}).get("id"):
                        return x["ownedTagDecl"]["id"]
                return None
            want = find(n)
    if want is None or want not in recs:
        return None
    out = []
    for f in recs[want].get("inner", []):
        if f.get("kind") == "FieldDecl":
            t = f.get("type", {}).get("qualType", "")
            out.append((f["name"], bool(re.fullmatch(r"(const\s+)?char\s*\*(\s*const)?", t.strip()))))
    return out


def option_registry(run):
    """[(option name, value parser function)] in registry order, honouring the #ifdefs (clang -E)"""
    p = subprocess.run(["clang", "-E", "-P", "-std=c99", "-w", "-DHAVE_CONFIG_H", "-I" + run.tree, "-I" + os.path.join(run.tree, "src")] + run.inih_defs()
                       + [os.path.join(run.tree, "src/configfile.c")], stdout=subprocess.PIPE, stderr=subprocess.PIPE, text=True)
    if p.returncode != 0:
        raise CheckError("clang -E failed on configfile.c: " + p.stderr[-1000:])
    m = re.search(r"snoopy_configfile_optionRegistry\s*\[\s*\]\s*=\s*\{(.*?)\n\};", p.stdout, re.S)
    if not m:
        return None
    rows = re.findall(r'\{\s*"([A-Za-z0-9_]*)"\s*,\s*\{\s*[A-Za-z0-9_]+\s*,\s*&?\s*([A-Za-z0-9_]+)\s*,', m.group(1))
    return [(n, f) for (n, f) in rows if n and f != "NULL"]


def tr_cfglife(run):
    cache = {}

    def tu(rel, shadow=None):
        key = (rel, shadow)
        if key not in cache:
            cache[key] = clang_ast2(run, rel, shadow)
        return cache[key]
    out = ["(* GENERATED from the current /repo working tree by vlib/tr_life.py (clang AST) -- do not edit *)"] + HEADER
    notes = []

    def add(ident, rel, fn, shadow=None):
        fns = functions(tu(rel, shadow))
        if fn not in fns:
            notes.append("function %s not found in %s" % (fn, rel))
            out.append(emit_fn(ident, fn, 0, '[SOther "missing function"]'))
            return
        n, body = skel_term(fns[fn], statics_of(tu(rel, shadow)))
        out.append(emit_fn(ident, fn, n, body))
    for ident, rel, fn in CFG_ITEMS:
        add(ident, rel, fn)
    sh = nts_shadow(run)
    for ident, rel, fn in NTS_ITEMS:
        add(ident, rel, fn, sh)
    # the record
    fields = record_fields(tu("src/configuration.c"), "snoopy_configuration_t")
    if not fields:
        notes.append("configuration record not found")
        fields = []
    out.append("Definition cfg_fields : list string :=\n  [%s]." % "; ".join(q(f) for f, _ in fields))
    out.append("Definition cfg_ptr_fields : list string :=\n  [%s].\n" % "; ".join(q(f) for f, p in fields if p))
    # option registry -> parser skeletons
    reg = option_registry(run)
    if reg is None:
        notes.append("option registry not recognised")
        reg = []
    fns = functions(tu("src/configfile.c"))
    rows = []
    for i, (name, pf) in enumerate(reg):
        ident = "sk_parse_%d" % i
        if pf in fns:
            n, body = skel_term(fns[pf], statics_of(tu("src/configfile.c")))
        else:
            notes.append("value parser %s not found" % pf)
            n, body = 0, '[SOther "missing function"]'
        out.append(emit_fn(ident, pf, n, body))
        rows.append("(%s, %s)" % (q(name), ident))
    out.append("Definition cfg_parsers : list (string * fn_skel) :=\n  [%s].\n" % ";\n   ".join(rows))
    # callees of the life-cycle functions that reach no acquisition / release function (complete raw-AST call lists)
    cg_fns, touch, _, _, _ = callgraph(run)
    mine = [fn for (_, _, fn) in CFG_ITEMS + NTS_ITEMS] + [pf for (_, pf) in reg]
    callees = set()
    todo = [fn for fn in mine if fn in cg_fns]
    seen_fn = set(todo)
    while todo:               # direct callees, and what file-local static helpers (possibly inlined into the skeletons) call in turn
        fn = todo.pop()
        for c in cg_fns[fn][1]:
            callees.add(c)
            if c in cg_fns and c not in seen_fn and cg_fns[c][3].get("storageClass") == "static":
                seen_fn.add(c)
                todo.append(c)
    neutral = sorted(c for c in callees if c not in ACQ and c not in REL and c not in touch)
    out.append("Definition cfg_neutral : list string :=\n  [%s].\n" % "; ".join(q(c) for c in neutral))
    # who writes the record at all (whole library, raw AST)
    writers = []
    for fn in sorted(cg_fns):
        w = set()
        record_writes(cg_fns[fn][3], "snoopy_configuration_t", w)
        if w:
            writers.append((fn, sorted(w)))
    out.append("Definition cfg_writers : list (string * list string) :=\n  [%s].\n" % ";\n   ".join("(%s, [%s])" % (q(f), "; ".join(q(x) for x in w)) for f, w in writers))
    src = run.src("src/configuration.c")
    m = re.search(r"snoopy_configuration_t\s+snoopy_configuration_data\s*=\s*\{(.*?)\}\s*;", src, re.S)
    static_uninit = bool(m) and not re.search(r"\.initialized\s*=\s*(?!\s|SNOOPY_FALSE\b|0\b)", m.group(1))
    if not m:
        notes.append("static definition of snoopy_configuration_data not recognised")
    out.append("Definition cfg_static_uninit : bool := %s.\n" % ("true" if static_uninit else "false"))
    out.append("From Snoopy Require Import CfgLife.Model.")
    out.append("Definition gen : cfg_gen := {| g_fields := cfg_fields; g_ptr_fields := cfg_ptr_fields; g_ctor := sk_cfg_ctor; g_dtor := sk_cfg_dtor; "
               "g_defaults := sk_cfg_defaults; g_uninit := sk_cfg_uninit; g_get_ts := sk_cfg_get_ts; g_get_nts := sk_cfg_get_nts; g_load := sk_cfg_load; "
               "g_callback := sk_cfg_callback; g_tsrm_new := sk_tsrm_new; g_tsrm_ctor := sk_tsrm_ctor; g_tsrm_dtor := sk_tsrm_dtor; "
               "g_init_ts := sk_life_init_ts; g_cleanup_ts := sk_life_cleanup_ts; g_init_nts := sk_life_init_nts; g_cleanup_nts := sk_life_cleanup_nts; "
               "g_parsers := cfg_parsers; g_neutral := cfg_neutral; g_static_uninit := cfg_static_uninit; g_writers := cfg_writers |}.\n")
    run.write_gen("Gen_CfgLife.v", "\n".join(out))
    for n in notes:
        run.notes.append("tr_cfglife: " + n)
    info = {"fields": [f for f, _ in fields], "ptr_fields": [f for f, p in fields if p], "options": [n for n, _ in reg]}
    run.consts["cfglife"] = info
    return info


# ------------------------------------------------------------------------------------------------ C16

ACQ = {"malloc", "calloc", "realloc", "strdup", "strndup", "fopen", "fdopen", "freopen", "open", "openat", "creat", "socket", "accept", "dup",
       "opendir", "fdopendir", "getline", "getdelim", "setutent", "openlog", "popen", "tmpfile", "mmap", "pipe", "pipe2", "socketpair", "eventfd",
       "asprintf", "vasprintf", "open_memstream", "dlopen", "sem_open", "shm_open", "memfd_create", "epoll_create", "inotify_init", "timerfd_create", "signalfd"}
REL = {"free", "fclose", "close", "closedir", "endutent", "closelog", "pclose", "munmap", "dlclose"}


def const_object(vardecl):
    """the object itself cannot be written: `const T x`, `const T x[n]`, `T *const p` (a `const char *p` is a writable pointer)"""
    t = vardecl.get("type", {}).get("qualType", "")
    t = re.sub(r"\[[^\]]*\]", "", t).strip()
    if "*" in t:
        return bool(re.search(r"\*\s*const\s*$", t))
    return t.startswith("const ") or t.endswith(" const")


def callgraph(run):
    """every function defined in the library sources: file, complete direct callee list, indirect-call flag, AST node, static locals;
    the set that transitively reaches an acquisition/release function; address-taken functions; a callees-first order"""
    if getattr(run, "_life_cg", None):
        return run._life_cg
    srcs = [os.path.relpath(s, run.tree) for s in run.lib_sources(entry=True)]
    file_statics = {}
    run._life_statics = file_statics
    static_objs = set()
    run._life_static_objs = static_objs

    def one(rel):
        t = clang_ast2(run, rel)
        res = []
        taken = set()
        for n in t.get("inner", []):
            if n.get("kind") == "VarDecl":
                addr_taken(n, taken)
        for name, node in functions(t).items():
            if name.startswith("__"):
                continue      # inline helpers from system headers (byteswap)
            cs, ind = set(), []
            all_callees(node, cs, ind)
            addr_taken(node, taken)
            statics = []

            def walk(x):
                if isinstance(x, dict):
                    if x.get("kind") == "VarDecl" and x.get("storageClass") == "static" and not const_object(x):
                        statics.append(x.get("name"))
                    for c in x.get("inner", []) or []:
                        walk(c)
            walk(node)
            res.append((name, rel, sorted(cs), bool(ind), node, statics))
        file_statics[rel] = statics_of(t)
        # objects with static storage defined here: file scope (not `extern` declarations) and function-local statics ("function:name")
        for n in t.get("inner", []):
            if n.get("kind") == "VarDecl" and n.get("storageClass") != "extern" and not n.get("isImplicit") and n.get("name") and not const_object(n):
                static_objs.add(n["name"])
        for (name, _, _, _, _, st) in res:
            for v in st:
                static_objs.add("%s:%s" % (name, v))
        return res, taken
    with ThreadPoolExecutor(NCPU) as ex:
        parts = list(ex.map(one, srcs))
    fns = {}
    taken = set()
    for res, tk in parts:
        taken |= tk
        for (name, rel, cs, ind, node, statics) in res:
            if name in fns:
                run.notes.append("tr_resid: function %s defined twice (%s, %s)" % (name, fns[name][0], rel))
            fns[name] = (rel, cs, ind, node, statics)
    # transitive "touches a resource operation"
    touch = {n for n, (_, cs, _, _, _) in fns.items() if set(cs) & (ACQ | REL)}
    changed = True
    while changed:
        changed = False
        for n, (_, cs, _, _, _) in fns.items():
            if n not in touch and any(c in touch for c in cs):
                touch.add(n)
                changed = True
    # topological order, callees first (cycles: members keep source order, recorded)
    order, state, cyc = [], {}, []

    def visit(n):
        if state.get(n) == 2:
            return
        if state.get(n) == 1:
            cyc.append(n)
            return
        state[n] = 1
        for c in fns[n][1]:
            if c in fns and c != n:
                visit(c)
        state[n] = 2
        order.append(n)
    import sys
    sys.setrecursionlimit(10000)
    for n in sorted(fns):
        visit(n)
    run._life_cg = (fns, touch, taken, order, cyc)
    return run._life_cg


def tr_resid(run):
    """Gen_Resid.v: per library function its complete direct callee list and, for functions that (transitively) touch a resource
    operation, the skeleton; topological order (callees first); address-taken functions."""
    fns, touch, taken, order, cyc = callgraph(run)
    out = ["(* GENERATED from the current /repo working tree by vlib/tr_life.py (clang AST of every library source) -- do not edit *)"] + HEADER
    rows = []
    nsk = 0
    for i, n in enumerate(order):
        rel, cs, ind, node, statics = fns[n]
        if n in touch:
            np_, body = skel_term(node, run._life_statics.get(rel))      # file-local static helpers inlined where that is purely syntactic
            out.append(emit_fn("rf_%d" % i, n, np_, body))
            sk = "(Some rf_%d)" % i
            nsk += 1
        else:
            sk = "None"
        rows.append("{| lf_name := %s; lf_calls := [%s]; lf_indirect := %s; lf_skel := %s |}" % (q(n), "; ".join(q(c) for c in cs), "true" if ind else "false", sk))
    out.append("From Snoopy Require Import Residue.Model.")
    out.append("Definition lib_fns : list libfn :=\n  [%s].\n" % ";\n   ".join(rows))
    out.append("Definition address_taken : list string :=\n  [%s].\n" % "; ".join(q(n) for n in sorted(taken) if n in fns))
    out.append("Definition call_cycles : list string :=\n  [%s].\n" % "; ".join(q(n) for n in sorted(set(cyc))))
    out.append("Definition static_objects : list string :=\n  [%s].\n" % "; ".join(q(n) for n in sorted(run._life_static_objs)))
    ext = sorted(set(c for n in fns for c in fns[n][1] if c not in fns))
    out.append("Definition ast_externals : list string :=\n  [%s].\n" % "; ".join(q(n) for n in ext))
    run.write_gen("Gen_Resid.v", "\n".join(out))
    info = {"functions": len(fns), "static_objects": sorted(run._life_static_objs), "externals": ext, "touching": sorted(touch), "skeletons": nsk, "address_taken": sorted(n for n in taken if n in fns), "cycles": sorted(set(cyc)),
            "statics": {n: v[4] for n, v in fns.items() if v[4]}, "files": {n: v[0] for n, v in fns.items()}}
    run.consts["resid"] = info
    return info
