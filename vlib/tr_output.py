"""T1/T2 translator for the outputs (C04, C17, C03): flags, modes, format strings, call patterns of src/output/*.c."""
import os, re
from .translate import strip_comments, func_body, c_unescape, cpp_value, STR, resolve_locals, reachable_body, defines, file_path_var
from .core import coq_bytes
from .skel import emit_skeletons


def parse_fmt(b):
    """printf format bytes -> list of segments, or None when a directive is not one of %d %u %s %.*s %%"""
    segs, lit, i = [], bytearray(), 0
    while i < len(b):
        if b[i] == 0x25:
            rest = b[i + 1:]
            if rest.startswith(b"%"):
                lit.append(0x25); i += 2; continue
            if lit:
                segs.append(("lit", bytes(lit))); lit = bytearray()
            if rest[:1] in (b"d", b"u"):
                segs.append(("int",)); i += 2
            elif rest[:1] == b"s":
                segs.append(("str",)); i += 2
            elif rest[:3] == b".*s":
                segs.append(("starstr",)); i += 4
            else:
                return None
        else:
            lit.append(b[i]); i += 1
    if lit:
        segs.append(("lit", bytes(lit)))
    return segs


def coq_fmt(segs):
    if segs is None:
        return "[]"
    out = []
    for s in segs:
        out.append({"lit": lambda: "FLit " + coq_bytes(s[1]), "int": lambda: "FInt", "str": lambda: "FStr", "starstr": lambda: "FStarStr"}[s[0]]())
    return "[" + "; ".join(out) + "]"


def cb(v):
    return "true" if v else "false"


def _lenval(e, L):
    """value of a length expression over strlen(logMessage), numerals, + - ( ) and integer casts, at strlen = L"""
    e = re.sub(r"\(\s*(?:size_t|ssize_t|int|unsigned|unsigned\s+int|long)\s*\)", "", e)
    e = re.sub(r"strlen\s*\(\s*logMessage\s*\)", str(L), e)
    if not re.fullmatch(r"[\d\s+\-()]+", e) or not re.search(r"\d", e):
        return None
    try:
        return int(eval(e, {"__builtins__": {}}))
    except Exception:
        return None


def framed_by_newline(fb):
    """the record handed to the single write() is the message followed by one '\\n': BUF = malloc(n+1); memcpy(BUF, logMessage, n);
    BUF[n] = '\\n'; write(fd, BUF, n+1) with n = strlen(logMessage) -- whatever the locals are called and however n is spelt"""
    t = resolve_locals(fb)
    w = re.findall(r"\bwrite\s*\(\s*\w+\s*,\s*(\w+)\s*,\s*([^;]+?)\)\s*;", t)
    if len(w) != 1:
        return False
    buf, wl = w[0]
    b = re.escape(buf)
    ma = re.findall(r"\b%s\s*=\s*(?:\(\s*char\s*\*\s*\)\s*)?malloc\s*\(([^;]+)\)\s*;" % b, t)
    cp = re.findall(r"\bmemcpy\s*\(\s*%s\s*,\s*logMessage\s*,([^;]+)\)\s*;" % b, t)
    nl = re.findall(r"\b%s\s*\[([^\]]+)\]\s*=\s*'\\n'\s*;" % b, t)
    st = re.findall(r"\b%s\s*\[[^\]]+\]\s*=" % b, t)
    if not (len(ma) == 1 and len(cp) == 1 and len(nl) == 1 and len(st) == 1):
        return False
    return all(_lenval(ma[0], L) == L + 1 and _lenval(cp[0], L) == L and _lenval(nl[0], L) == L and _lenval(wl, L) == L + 1 for L in (0, 7, 1000))


def empty_arg_single_exit(body):
    """single-exit form of "an empty argument fails": a result variable preset to SNOOPY_OUTPUT_FAILURE, everything that touches the file inside
    `if (0 != strcmp(arg, "")) { ... }`, nothing but `return <that variable>;` behind it"""
    from .translate import _if_else
    m = re.search(r"\bint\s+(\w+)\s*=\s*SNOOPY_OUTPUT_FAILURE\s*;", body)
    g = re.search(r'\bif\s*\(\s*(?:0\s*!=\s*strcmp\s*\(\s*arg\s*,\s*""\s*\)|strcmp\s*\(\s*arg\s*,\s*""\s*\)\s*!=\s*0|\'\\0\'\s*!=\s*arg\s*\[\s*0\s*\]|arg\s*\[\s*0\s*\]\s*!=\s*\'\\0\')\s*\)', body)
    if not (m and g and m.start() < g.start()):
        return False
    try:
        cond, th, el, end = _if_else(body, g.start())
    except ValueError:
        return False
    before, after = body[:g.start()], body[end:]
    touches = r"\b(open|fopen|write|snoopy_message_generateFromFormat)\s*\("
    if el is not None or re.search(touches, before) or re.search(touches, after):
        return False
    return re.fullmatch(r"\s*return\s+%s\s*;\s*" % re.escape(m.group(1)), after) is not None and len(re.findall(r"\breturn\b", body)) == 1


def fixed_path_arg(run, rel, body):
    """devtty/devnull: the path handed to snoopy_output_fileoutput in the function's single call of it: a literal, a macro of this file
    defined as one literal, or a local pointer whose only value is one literal (names are free)"""
    calls = re.findall(r"snoopy_output_fileoutput\s*\(\s*logMessage\s*,\s*(?:" + STR + r"|([A-Za-z_]\w*))\s*\)", body)
    if len(calls) != 1:
        return b""
    lit, ident = calls[0]
    if not ident:
        return c_unescape(lit)
    d = defines(run.src(rel)).get(ident, "")
    mm = re.fullmatch(STR, d)
    if mm:
        return c_unescape(mm.group(1))
    loc = re.findall(r"\bchar\s+(?:const\s*)?\*\s*(?:const\s+)?%s\s*=\s*" % re.escape(ident) + STR + r"\s*;", body)
    if len(loc) == 1 and len(re.findall(r"\b%s\s*=(?!=)" % re.escape(ident), body)) == 1:
        return c_unescape(loc[0])
    return b""


# "the message is empty": strlen(logMessage) == 0 or logMessage[0] == '\\0' (or *logMessage), either operand order
EMPTY_MSG = (r"if\s*\(\s*(?:0\s*==\s*strlen\s*\(\s*logMessage\s*\)|strlen\s*\(\s*logMessage\s*\)\s*==\s*0|'\\0'\s*==\s*logMessage\s*\[\s*0\s*\]|logMessage\s*\[\s*0\s*\]\s*==\s*'\\0'"
             r"|'\\0'\s*==\s*\*\s*logMessage|\*\s*logMessage\s*==\s*'\\0'|!\s*logMessage\s*\[\s*0\s*\]|!\s*\*\s*logMessage)\s*\)")


def preprocessed_src(run, rel):
    import subprocess
    cmd = ["gcc", "-E", "-P", "-std=c99", "-DHAVE_CONFIG_H", "-D_GNU_SOURCE", "-w", "-I" + run.tree, "-I" + os.path.join(run.tree, "src")] + run.inih_defs() + [os.path.join(run.tree, rel)]
    p = subprocess.run(cmd, stdout=subprocess.PIPE, stderr=subprocess.PIPE, text=True, errors="replace")
    if p.returncode != 0:
        raise RuntimeError(p.stderr[-500:])
    return p.stdout


def tr_output(run):
    notes = run.notes
    v = {}
    fo = strip_comments(run.src("src/output/fileoutput.c"))
    # the function together with the file-local static helpers it calls (a statement may live in an extracted helper)
    fb = reachable_body(fo, "snoopy_output_fileoutput") or ""
    pv = re.escape(file_path_var(fo) or "filePath")
    m_fopen = re.search(r"fopen\s*\(\s*" + pv + r"\s*,\s*" + STR + r"\s*\)", fb)
    m_open = re.search(r"\bopen\s*\(\s*" + pv + r"\s*,\s*([A-Z_|\s]+?)\s*(?:,\s*[0-7]+\s*)?\)", fb)
    nwrite = len(re.findall(r"\bwrite\s*\(", fb))
    nstdio = len(re.findall(r"\b(fprintf|fputs|fwrite|fputc|dprintf|vfprintf)\s*\(", fb))
    if m_open:
        flags = set(x.strip() for x in m_open.group(1).split("|"))
        # exactly append-create-write; the only other flags that change nothing about where and whether the record lands are CLOEXEC / NOCTTY
        extra_flags = flags - {"O_WRONLY", "O_CREAT", "O_APPEND", "O_CLOEXEC", "O_NOCTTY"}
        v["file_open_append"] = {"O_WRONLY", "O_CREAT", "O_APPEND"} <= flags and not extra_flags
        if extra_flags:
            notes.append("translator: fileoutput.c opens its file with further flags %s" % sorted(extra_flags))
        # the function (and the static helpers it uses) may call nothing but the pieces of open - build the line - write - close
        known = {"snoopy_output_fileoutput", "strcmp", "strlen", "snoopy_message_generateFromFormat", "open", "malloc", "memcpy", "write", "free", "close",
                 "if", "return", "sizeof"} | set(re.findall(r"^\s*static\s+[\w\s\*]+?\b(\w+)\s*\([^;{]*\)\s*\{", fo, re.M))
        extra_calls = sorted(set(re.findall(r"\b([A-Za-z_]\w*)\s*\(", fb)) - known)
        if extra_calls:
            notes.append("translator: fileoutput.c calls %s besides open/write/close and the line assembly" % extra_calls)
        v["file_single_write"] = (nwrite == 1 and nstdio == 0 and not extra_calls and not re.search(r"\b(while|for|do)\b", fb))
        v["file_open_desc"] = "open:" + "|".join(sorted(flags))
    elif m_fopen:
        mode = c_unescape(m_fopen.group(1))
        v["file_open_append"] = mode in (b"a", b"ae", b"ab")
        # a default-buffered FILE* splits records larger than the stdio block into several write(2)s
        v["file_single_write"] = False
        v["file_open_desc"] = "fopen:" + mode.decode()
    else:
        v["file_open_append"] = False
        v["file_single_write"] = False
        v["file_open_desc"] = "unrecognised"
        notes.append("translator: fileoutput.c open call not recognised")
    m = re.search(r"fprintf\s*\(\s*fp\s*,\s*" + STR, fb)
    if m and c_unescape(m.group(1)) == b"%s\n":
        v["file_suffix"] = b"\n"
    elif framed_by_newline(fb):
        v["file_suffix"] = b"\n"
    else:
        v["file_suffix"] = b""
        notes.append("translator: fileoutput.c record suffix not recognised")
    v["file_empty_arg_fails"] = bool(re.search(r'if\s*\(\s*0\s*==\s*strcmp\s*\(\s*arg\s*,\s*""\s*\)\s*\)\s*\{\s*return\s+SNOOPY_OUTPUT_FAILURE', fb)) \
        or empty_arg_single_exit(func_body(fo, "snoopy_output_fileoutput") or "")
    for k, f, fn in (("devtty_path", "devttyoutput", "snoopy_output_devttyoutput"), ("devnull_path", "devnulloutput", "snoopy_output_devnulloutput")):
        b = func_body(strip_comments(run.src("src/output/%s.c" % f)), fn) or ""
        v[k] = fixed_path_arg(run, "src/output/%s.c" % f, b)
    # stdout / stderr
    for k, f, fn, stream, fdname in (("stdout", "stdoutoutput", "snoopy_output_stdoutoutput", "stdout", "STDOUT_FILENO"),
                                     ("stderr", "stderroutput", "snoopy_output_stderroutput", "stderr", "STDERR_FILENO")):
        b = func_body(strip_comments(run.src("src/output/%s.c" % f)), fn) or ""
        m1 = re.search(r"fprintf\s*\(\s*" + stream + r"\s*,\s*" + STR + r"\s*,\s*logMessage\s*\)", b)
        m2 = re.search(r"dprintf\s*\(\s*" + fdname + r"\s*,\s*" + STR + r"\s*,\s*logMessage\s*\)", b)
        if m2:
            v[k + "_fmt"] = parse_fmt(c_unescape(m2.group(1)))
            v[k + "_to_os"] = True
        elif m1:
            v[k + "_fmt"] = parse_fmt(c_unescape(m1.group(1)))
            # stderr is unbuffered by default; stdout is not: the record must be flushed before returning
            v[k + "_to_os"] = True if stream == "stderr" else bool(re.search(r"fflush\s*\(\s*stdout\s*\)", b))
        else:
            v[k + "_fmt"] = None
            v[k + "_to_os"] = False
            notes.append("translator: %s.c print call not recognised" % f)
    # socket
    so = strip_comments(run.src("src/output/socketoutput.c"))
    sb = resolve_locals(reachable_body(so, "snoopy_output_socketoutput") or "")
    # flags as the compiler sees them: the preprocessed function (file-local macros and #if branches resolved; the SOCK_* names survive -E
    # because glibc defines them as enumerators)
    try:
        spp = resolve_locals(reachable_body(preprocessed_src(run, "src/output/socketoutput.c"), "snoopy_output_socketoutput") or "")
    except Exception:
        spp = ""
    socks = re.findall(r"socket\s*\(\s*[\w()]+\s*,\s*([A-Za-z_|\s()]+?)\s*,\s*0\s*\)", spp)
    sflags = set(x.strip(" ()") for x in socks[-1].split("|")) if len(socks) == 1 else set()
    v["sock_nonblock"] = "SOCK_NONBLOCK" in sflags and "SOCK_DGRAM" in sflags
    v["sock_cloexec"] = "SOCK_CLOEXEC" in sflags
    m = re.search(r"send\s*\(\s*\w+\s*,\s*logMessage\s*,\s*strlen\s*\(\s*logMessage\s*\)\s*,\s*([A-Z_|\s]+?)\s*\)", sb)
    snd = set(x.strip() for x in m.group(1).split("|")) if m else set()
    v["send_dontwait"] = "MSG_DONTWAIT" in snd
    v["send_nosignal"] = "MSG_NOSIGNAL" in snd
    m = re.search(r"#\s*define\s+PATH_SIZE\s+(\d+)", so)
    v["sock_path_size"] = int(m.group(1)) if m and re.search(r"strncpy\s*\(\s*remote\.sun_path\s*,\s*arg\s*,\s*PATH_SIZE\s*\)", sb) else 0
    v["sock_skips_empty"] = bool(re.search(EMPTY_MSG + r"\s*\{\s*return\s+SNOOPY_OUTPUT_GRACEFUL_DISCARD", sb))
    # devlog
    dv = strip_comments(run.src("src/output/devlogoutput.c"))
    db = func_body(dv, "snoopy_output_devlogoutput") or ""
    # a local that only names the priority expression is substituted back
    mp = re.search(r"(?:const\s+)?int\s+(?:const\s+)?(\w+)\s*=\s*(CFG->syslog_facility\s*\|\s*CFG->syslog_level)\s*;", db)
    if mp and len(re.findall(r"\b%s\s*=(?!=)" % re.escape(mp.group(1)), db)) == 1:
        db = db[:mp.start()] + re.sub(r"\b%s\b" % re.escape(mp.group(1)), mp.group(2), db[mp.end():])
    m = re.search(r"snprintf\s*\(\s*logMessageWithPrefix\s*,\s*logMessageWithPrefixSize\s*,\s*" + STR + r"\s*,\s*CFG->syslog_facility\s*\|\s*CFG->syslog_level\s*,\s*([^,]+),\s*syslogIdent\s*,\s*getpid\s*\(\s*\)\s*,\s*logMessage\s*\)", db)
    v["devlog_fmt"] = parse_fmt(c_unescape(m.group(1))) if m else None
    v["devlog_prec"] = cpp_value(run, m.group(2).strip(), includes=("limits.h", "snoopy.h")) if m else 0
    m2 = re.search(r"logMessageWithPrefixSize\s*=\s*strlen\s*\(\s*logMessage\s*\)\s*\+\s*SNOOPY_SYSLOG_IDENT_FORMAT_BUF_SIZE\s*\+\s*(\d+)\s*;", db)
    v["devlog_extra"] = int(m2.group(1)) if m2 else 0
    v["devlog_ident_buf"] = cpp_value(run, "SNOOPY_SYSLOG_IDENT_FORMAT_BUF_SIZE", includes=("limits.h", "snoopy.h")) or 0
    m3 = re.search(r"snoopy_output_socketoutput\s*\(\s*logMessageWithPrefix\s*,\s*" + STR + r"\s*\)", db)
    v["devlog_path"] = c_unescape(m3.group(1)) if m3 else b""
    v["devlog_skips_empty"] = bool(re.search(EMPTY_MSG + r"\s*\{\s*return\s+SNOOPY_OUTPUT_GRACEFUL_DISCARD", db))
    if v["devlog_prec"] is None:
        v["devlog_prec"] = 0
    fields = [
        "file_open_append := %s" % cb(v["file_open_append"]), "file_single_write := %s" % cb(v["file_single_write"]),
        "file_suffix := %s" % coq_bytes(v["file_suffix"]), "file_empty_arg_fails := %s" % cb(v["file_empty_arg_fails"]),
        "devtty_path := %s" % coq_bytes(v["devtty_path"]), "devnull_path := %s" % coq_bytes(v["devnull_path"]),
        "stdout_fmt := %s" % coq_fmt(v["stdout_fmt"]), "stdout_to_os := %s" % cb(v["stdout_to_os"]),
        "stderr_fmt := %s" % coq_fmt(v["stderr_fmt"]), "stderr_to_os := %s" % cb(v["stderr_to_os"]),
        "sock_nonblock := %s" % cb(v["sock_nonblock"]), "sock_cloexec := %s" % cb(v["sock_cloexec"]),
        "send_dontwait := %s" % cb(v["send_dontwait"]), "send_nosignal := %s" % cb(v["send_nosignal"]),
        "sock_path_size := %d%%N" % v["sock_path_size"], "sock_skips_empty := %s" % cb(v["sock_skips_empty"]),
        "devlog_fmt := %s" % coq_fmt(v["devlog_fmt"]), "devlog_prec := %d%%N" % v["devlog_prec"], "devlog_extra := %d%%N" % v["devlog_extra"],
        "devlog_ident_buf := %d%%N" % v["devlog_ident_buf"], "devlog_path := %s" % coq_bytes(v["devlog_path"]),
        "devlog_skips_empty := %s" % cb(v["devlog_skips_empty"]),
    ]
    run.write_gen("Gen_Output.v", "(* GENERATED from the current /repo working tree by vlib/tr_output.py -- do not edit *)\n"
                  "From Snoopy Require Import Lib.CStr Output.Model.\nDefinition consts : output_consts :=\n  {| %s |}.\n" % ";\n     ".join(fields))
    js = {k: (x.hex() if isinstance(x, bytes) else x) for k, x in v.items()}
    run.consts["output"] = js
    # tsv for the OCaml driver
    tsv = []
    for k, x in v.items():
        if isinstance(x, bool):
            tsv.append("%s\t%d" % (k, 1 if x else 0))
        elif isinstance(x, int):
            tsv.append("%s\t%d" % (k, x))
        elif isinstance(x, bytes):
            tsv.append("%s\t%s" % (k, x.hex() if x else "-"))
        elif isinstance(x, list) or x is None:
            enc = "none" if x is None else ";".join(s[0] if s[0] != "lit" else "lit:" + s[1].hex() for s in x)
            tsv.append("%s\t%s" % (k, enc))
    open(os.path.join(run.scratch, "consts_output.tsv"), "w").write("\n".join(tsv) + "\n")
    return v


def tr_errors(run):
    """T1 for the error records (C04): the text message.c hands to the error handler on a refused append, and the shape of
    error.c (return when error logging is off; logging switched off around ONE dispatch of the raw error text; switched on again)."""
    msg = strip_comments(run.src("src/message.c"))
    ab = func_body(msg, "snoopy_message_append") or ""
    m = re.search(r"if\s*\(\s*SNOOPY_ERROR\s*==\s*snoopy_util_string_append\s*\(\s*logMessage\s*,\s*logMessageBufSize\s*,\s*appendThis\s*\)\s*\)\s*\{\s*"
                  r"snoopy_error_handler\s*\(\s*" + STR + r"\s*\)\s*;\s*\}\s*$", ab.strip())
    text = c_unescape(m.group(1)) if m else b""
    if not m:
        run.notes.append("translator: message.c snoopy_message_append not recognised")
    eb = func_body(strip_comments(run.src("src/error.c")), "snoopy_error_handler") or ""
    guard = bool(re.search(r"if\s*\(\s*SNOOPY_TRUE\s*!=\s*CFG->error_logging_enabled\s*\)\s*\{\s*return\s*;\s*\}", eb))
    disp = re.findall(r"snoopy_action_log_message_dispatch\s*\(\s*(\w+)\s*\)", eb)
    wrapped = bool(re.search(r"CFG->error_logging_enabled\s*=\s*SNOOPY_FALSE\s*;\s*snoopy_action_log_message_dispatch\s*\(\s*errorMsg\s*\)\s*;\s*"
                             r"CFG->error_logging_enabled\s*=\s*SNOOPY_TRUE\s*;", eb))
    ok = guard and wrapped and disp == ["errorMsg"] and not re.search(r"\b(while|for|do|goto)\b", eb)
    if not ok:
        run.notes.append("translator: error.c handler shape not recognised (guard=%s wrapped=%s dispatches=%s)" % (guard, wrapped, disp))
    run.write_gen("Gen_Errors.v", "(* GENERATED from the current /repo working tree by vlib/tr_output.py -- do not edit *)\n"
                  "From Snoopy Require Import Lib.CStr.\n"
                  "Definition err_append_text : list byte := %s.\nDefinition err_handler_ok : bool := %s.\n" % (coq_bytes(text), cb(ok)))
    run.consts["errors"] = {"err_append_text": text.hex(), "err_handler_ok": ok}
    return run.consts["errors"]
