"""T1/T2 translator for snoopyctl's ld.so.preload editing (C18, C19, C20).

T1  Gen_Preload.v      record preload_consts: the search needle (SNOOPY_SO_LIBRARY_NAME, evaluated by the compiler and
                       checked to be the needle at every search site), the byte set accepted after an entry
                       (findEntry), the comment byte (findNonCommentLine...), the blank / stop bytes of disable's
                       same-line handling, whether enable guards an active entry against a second active mention.
T2  Gen_PreloadSkel.v  the body of etcLdSoPreload_writeFile as a skeleton term (clang AST, vlib/skel.py); the Coq side
                       (Preload/WriteFile.v) compiles it to a file-operation program; temp suffix and fopen mode are read
                       there from the skeleton itself.
An unrecognised pattern yields a value that makes preload_consts_ok false (and a note)."""
import os, re, subprocess
from .translate import strip_comments, func_body, c_unescape, emit, write_sidecars, resolve_locals
from .skel import emit_skeletons

CHAR = r"'((?:\\.|[^'\\])+)'"


def cpp_string(run, expr, includes=("snoopy.h",)):
    """Value of a string constant expression, as the build's compiler sees it."""
    prog = "".join('#include "%s"\n' % i for i in includes) + "#include <stdio.h>\n#include <string.h>\nint main(){const char*s=(%s);fwrite(s,1,strlen(s),stdout);return 0;}\n" % expr
    exe = os.path.join(run.scratch, "cppstr")
    p = subprocess.run(["gcc", "-x", "c", "-", "-o", exe, "-I" + run.tree, "-I" + os.path.join(run.tree, "src"), "-DHAVE_CONFIG_H", "-w"],
                       input=prog, text=True, stdout=subprocess.PIPE, stderr=subprocess.STDOUT)
    if p.returncode != 0:
        return None
    return subprocess.run([exe], stdout=subprocess.PIPE).stdout


def chars(body, pat):
    out = []
    for m in re.finditer(pat, body):
        b = c_unescape(m.group(1))
        if len(b) == 1:
            out.append(b[0])
        else:
            return None
    return out


def block_after(src, start):
    """text of the {...} block that starts at or after index `start`"""
    i = src.find("{", start)
    if i < 0:
        return ""
    depth, j = 1, i + 1
    while j < len(src) and depth:
        if src[j] == "{":
            depth += 1
        elif src[j] == "}":
            depth -= 1
        j += 1
    return src[i + 1:j - 1]


def parse_ifs(body):
    """every `if (cond) { then } [else { els }]` of the text (also nested ones): list of (cond, then, els|None)"""
    out = []
    for m in re.finditer(r"\bif\s*\(", body):
        i = m.end()
        depth, j = 1, i
        while j < len(body) and depth:
            depth += {"(": 1, ")": -1}.get(body[j], 0)
            j += 1
        cond = body[i:j - 1]
        k = j
        while k < len(body) and body[k].isspace():
            k += 1
        if k >= len(body) or body[k] != "{":
            continue
        then = block_after(body, k)
        e = k + len(then) + 2
        mm = re.match(r"\s*else\s*\{", body[e:])
        els = block_after(body, e + mm.end() - 1) if mm else None
        out.append((cond, then, els))
    return out


def only_comparisons(cond, var_pat, op, joiner):
    """cond is nothing but `<var> <op> '<char>'` terms joined by `joiner` (parentheses allowed): the characters, else None"""
    pat = var_pat + r"\s*" + re.escape(op) + r"\s*" + CHAR
    cs = chars(cond, pat)
    rest = re.sub(pat, "", cond)
    rest = rest.replace(joiner, "")
    if cs and not re.sub(r"[\s()]", "", rest):
        return cs
    return None


def entry_delims(sub):
    """bytes accepted right after the path by findEntry: compared directly (`entryPos[strlen(entry)] == 'x'`, the length possibly hoisted
    into a local) or in a file-local static helper that receives that byte as its parameter"""
    fe = resolve_locals(func_body(sub, "etcLdSoPreload_findEntry") or "")
    AT = r"entryPos\s*\[\s*strlen\s*\(\s*entry\s*\)\s*\]"
    dl = chars(fe, AT + r"\s*==\s*" + CHAR)
    if dl:
        return dl
    m = re.search(r"\b(\w+)\s*\(\s*" + AT + r"\s*\)", fe)
    if not m:
        return None
    helper = m.group(1)
    sig = re.search(r"\bstatic\s+[\w\s]+?\b" + re.escape(helper) + r"\s*\(\s*(?:const\s+)?(?:unsigned\s+)?char\s+(?:const\s+)?(\w+)\s*\)\s*\{", sub)
    hb = func_body(sub, helper)
    if not sig or hb is None:
        return None
    # the helper must be a single `return <disjunction of comparisons of its parameter>;`
    r = re.fullmatch(r"\s*return\s*(.*?);\s*", hb, re.S)
    if not r:
        return None
    return only_comparisons(r.group(1), r"\b" + re.escape(sig.group(1)) + r"\b", "==", "||")


def tr_preload(run):
    notes = run.notes
    v = {}
    sub = strip_comments(run.src("src/cli/cli-subroutines.c"))
    en = strip_comments(run.src("src/cli/action-enable.c"))
    di = strip_comments(run.src("src/cli/action-disable.c"))
    st = strip_comments(run.src("src/cli/action-status.c"))
    # --- the needle: value of the macro, and every search site must use it
    name = cpp_string(run, "SNOOPY_SO_LIBRARY_NAME")
    call = r"etcLdSoPreload_findNonCommentLineContainingString\s*\(\s*([^;]*?),\s*([A-Za-z_0-9\"\.]+)\s*\)\s*[;)!]"
    sites = []
    for nm, src in (("enable", en), ("disable", di), ("status", st)):
        found = re.findall(call, src)
        sites += [(nm, a[1]) for a in found]
        if not found:
            notes.append("translator: no foreign-instance search in action-%s.c" % nm)
            name = None
    if any(a != "SNOOPY_SO_LIBRARY_NAME" for _, a in sites):
        notes.append("translator: a foreign-instance search does not use SNOOPY_SO_LIBRARY_NAME: %s" % sorted(set(sites)))
        name = None
    v["lib_name"] = name
    # --- findEntry: bytes accepted after the entry
    dl = entry_delims(sub)
    if not dl:
        notes.append("translator: findEntry: the test of the byte after the entry (entryPos[strlen(entry)] == '...' || ...) was not recognised")
    v["entry_delims"] = bytes(x for x in dl if x != 0) if dl else None
    # --- findNonCommentLine: the comment byte
    fn = func_body(sub, "etcLdSoPreload_findNonCommentLineContainingString") or ""
    cm = chars(fn, r"if\s*\(\s*\*\s*lineStartPtr\s*!=\s*" + CHAR + r"\s*\)\s*\{[^}]*return\s+lineStartPtr\s*;")
    v["comment_ch"] = bytes(cm) if cm and len(cm) == 1 else None
    # --- disable: blanks skipped after the entry, bytes after which the whole line is removed
    db = func_body(di, "snoopy_cli_action_disable") or ""
    m = re.search(r"while\s*\(((?:[^()]|\([^()]*\))*)\)\s*\{\s*srcPosPtr\s*\+\+\s*;\s*\}", db)
    bl = chars(m.group(1), r"\*\s*srcPosPtr\s*==\s*" + CHAR) if m else None
    v["dis_blanks"] = bytes(bl) if bl else None
    # the "whole line or entry only" decision: an `if` whose condition is nothing but comparisons of *srcPosPtr with characters and of which
    # exactly one branch moves srcPosPtr to the end of the entry's line (`srcPosPtr = entryPtr + strlen(entryLine)`): that branch is the
    # else-branch of an all-`!=`/`&&` condition or the then-branch of an all-`==`/`||` condition; the other branch keeps the rest of the
    # line (it may compute copyLength there, be empty or be absent).  All four arrangements read as the same stop set.
    WHOLE = r"srcPosPtr\s*=\s*entryPtr\s*\+\s*strlen\s*\(\s*entryLine\s*\)\s*;"
    sp = None
    for (cond, then, els) in parse_ifs(db):
        w_then, w_else = bool(re.search(WHOLE, then)), bool(els is not None and re.search(WHOLE, els))
        if w_else and not w_then:
            sp = only_comparisons(cond, r"\*\s*srcPosPtr", "!=", "&&")
        elif w_then and not w_else:
            sp = only_comparisons(cond, r"\*\s*srcPosPtr", "==", "||")
        if sp:
            break
    if not sp:
        notes.append("translator: disable: the decision between removing the whole line and removing the entry only was not recognised")
    v["dis_stops"] = bytes(x for x in sp if x != 0) if sp else None
    # --- enable: an already-active entry next to another active mention is refused
    eb = func_body(en, "snoopy_cli_action_enable") or ""
    m = re.search(r"if\s*\(\s*etcLdSoPreload_findEntry\s*\(\s*curEtcLdSoPreloadContent\s*,\s*libsnoopySoPath\s*\)\s*\)", eb)
    guard = False
    if m:
        blk = block_after(eb, m.end())
        guard = len(re.findall(r"etcLdSoPreload_findNonCommentLineContainingString\s*\(", blk)) >= 2 and "fatalError" in blk
    else:
        notes.append("translator: enable's own-entry test not recognised")
    v["enable_guard"] = guard
    # diagnosis for a broken gen_ok: which statement group was read differently from what the theorems are proved for
    want = {"lib_name": (b"libsnoopy.so", "the needle SNOOPY_SO_LIBRARY_NAME at the search sites"),
            "entry_delims": (b"\n# \t", "findEntry: bytes accepted after the path (entryPos[strlen(entry)] == ...)"),
            "comment_ch": (b"#", "findNonCommentLine...: if (*lineStartPtr != '#') return lineStartPtr"),
            "dis_blanks": (b" \t", "disable: while (*srcPosPtr == ' ' || ... '\\t') srcPosPtr++"),
            "dis_stops": (b"\n#", "disable: whole line or entry only (*srcPosPtr != '\\0' && != '\\n' && != '#')")}
    for k, (exp, what) in want.items():
        got = v.get(k)
        same = got is not None and (got == exp if k == "lib_name" else set(got) == set(exp))
        if not same:
            notes.append("translator: %s: read %s, the theorems are proved for %r" % (what, "nothing (statement not recognised)" if got is None else repr(got), exp))
    if not guard:
        notes.append("translator: enable: no second foreign-instance search + fatalError in the 'already enabled' branch (D23 guard)")
    order = ["lib_name", "entry_delims", "comment_ch", "dis_blanks", "dis_stops", "enable_guard"]
    bad = {"lib_name": b"", "entry_delims": b"", "comment_ch": b"\x00", "dis_blanks": b"", "dis_stops": b"", "enable_guard": False}
    js, tsv = emit(run, "preload", "Preload", "preload_consts", "From Snoopy Require Import Lib.CStr Preload.Model.", v, order, bad)
    # comment_ch is a single byte in the record
    p = os.path.join(run.gen, "Gen_Preload.v")
    txt = open(p).read()
    txt = re.sub(r"comment_ch := \[(x[0-9a-f]{2})\]", r"comment_ch := \1", txt)
    open(p, "w").write(txt)
    write_sidecars(run, "preload", js, tsv)
    run.consts["preload"] = js
    # --- T2: the write skeleton
    emit_skeletons(run, "PreloadSkel", [("sk_writeFile", "src/cli/cli-subroutines.c", "etcLdSoPreload_writeFile"),
                                        ("sk_enable", "src/cli/action-enable.c", "snoopy_cli_action_enable"),
                                        ("sk_disable", "src/cli/action-disable.c", "snoopy_cli_action_disable")], inline_static=True)
    return js
