"""T1 translator for C13 (area `registry`), lexer level.

Reads from the snapshot
  src/datasourceregistry.c, src/filterregistry.c, src/outputregistry.c
      the two arrays of each registry AS WRITTEN: every row with the nesting of the #ifdef guards around it
      (outermost first), the trailing fixed rows and the sentinel included;
      the shape of callByName / callById and of the wrappers around the generic functions;
  src/genericregistry.c
      the sentinel literal and the shape of getCount / doesIdExist / doesNameExist / getIdFromName / getName;
  configure.ac (+ build/snoopy.m4 of the tree when present), config.h.in
      the feature switches ./configure can define.
Writes gen/Gen_Registry.v (a `registry_consts` record, re-checked by props/Properties_C13.v) and a JSON sidecar
for the generators.  Anything the lexer does not recognise (an #if / #else / #elif / #ifndef around a row, a #define or
#include inside an array, an item that is not a plain literal / identifier, a lookup function of another shape) sets
the corresponding `r_lex_ok` / `rc_lookup_ok` to false, which makes `registry_consts_ok` false, and leaves a note.
"""
import json, os, re, shutil
from .translate import strip_comments, func_body, c_unescape
from .cshape import same_shape
from .core import REPO

KINDS = [("ds", "Datasource", "datasource"), ("flt", "Filter", "filter"), ("out", "Output", "output")]
IMPL_PREFIX = {"datasource": "snoopy_datasource_", "filter": "snoopy_filter_", "output": "snoopy_output_"}
IMPL_SUFFIX = {"datasource": "", "filter": "", "output": "output"}
GUARD_PREFIX = {"datasource": "SNOOPY_CONF_DATASOURCE_ENABLED_", "filter": "SNOOPY_CONF_FILTER_ENABLED_", "output": "SNOOPY_CONF_OUTPUT_ENABLED_"}
FEATURE_RE = re.compile(r"SNOOPY_CONF_(?:DATASOURCE|FILTER|OUTPUT)_ENABLED_\w+")
NAME_OK = re.compile(r"[A-Za-z0-9_]*\Z")
IDENT = r"[A-Za-z_]\w*"


def impl_of(kind, name):
    return IMPL_PREFIX[kind] + name + IMPL_SUFFIX[kind]


def coq_str(s):
    return '"' + s.replace('"', '""') + '"'


def coq_list(items):
    return "[" + "; ".join(items) + "]"


def coq_rows(rows, indent="     "):
    if not rows:
        return "[]"
    return "[\n" + ";\n".join("%s(%s, %s)" % (indent, coq_list(coq_str(g) for g in gs), coq_str(it)) for gs, it in rows) + " ]"


# ------------------------------------------------------------------------------------ preprocessor-aware array reader
def parse_directive(line):
    """-> (kind, [macros]) with kind in ifdef/endif/opaque-open/else/other ; None when the line is no directive"""
    m = re.match(r"\s*#\s*(\w*)(.*)", line)
    if not m:
        return None
    d, rest = m.group(1), m.group(2).strip()
    if rest.endswith("\\"):
        return ("bad", [])
    if d == "ifdef":
        mm = re.fullmatch(r"(%s)" % IDENT, rest)
        return ("ifdef", [mm.group(1)]) if mm else ("opaque-open", [])
    if d == "if":
        # defined(X) [&& defined(Y)]*   /   defined X
        parts = [p.strip() for p in rest.split("&&")]
        ms = []
        for p in parts:
            p = re.sub(r"^\((.*)\)$", r"\1", p).strip()
            mm = re.fullmatch(r"defined\s*\(\s*(%s)\s*\)|defined\s+(%s)" % (IDENT, IDENT), p)
            if not mm:
                return ("opaque-open", [])
            ms.append(mm.group(1) or mm.group(2))
        return ("ifdef", ms)
    if d == "ifndef":
        return ("opaque-open", [])
    if d in ("else", "elif"):
        return ("else", [])
    if d == "endif":
        return ("endif", [])
    return ("other", [d])


def read_arrays(src, arrays):
    """src: comment-stripped text of one registry file.  arrays: {key: (start_regex, 'str'|'id')}.
    Returns {key: (rows, ok, problems)} ; rows = [([guards outermost first], item)]."""
    out = {k: ([], False, ["array %s not found" % k]) for k in arrays}
    lines = src.split("\n")
    stack = []            # frames: list of macros, or None for an opaque frame
    cur = None            # key of the array being read
    rows, probs, depth0 = [], [], 0
    defined_here = []
    i = 0
    while i < len(lines):
        line = lines[i]
        i += 1
        d = parse_directive(line)
        if d is not None:
            kind, ms = d
            if kind == "ifdef":
                stack.append(list(ms))
            elif kind == "opaque-open":
                stack.append(None)
                if cur:
                    probs.append("unrecognised conditional inside the array: %s" % line.strip())
            elif kind == "else":
                if stack:
                    stack[-1] = None
                if cur:
                    probs.append("#else/#elif inside the array: %s" % line.strip())
            elif kind == "endif":
                if stack:
                    stack.pop()
                else:
                    probs.append("#endif without #if")
                if cur and len(stack) < depth0:
                    probs.append("#endif closes a conditional opened before the array")
            elif kind == "bad":
                probs.append("continued preprocessor line: %s" % line.strip())
            else:
                if cur:
                    probs.append("preprocessor line inside the array: %s" % line.strip())
                elif ms and ms[0] in ("define", "undef"):
                    mm = re.match(r"\s*#\s*\w+\s+(\w+)", line)
                    if mm:
                        defined_here.append(mm.group(1))
            continue
        if cur is None:
            for k, (start, _) in arrays.items():
                m = re.search(start, line)
                if m:
                    cur, rows, probs, depth0 = k, [], [], len(stack)
                    if stack:
                        probs.append("array defined inside a conditional")
                    line = line[m.end():]
                    break
            if cur is None:
                continue
        if arrays[cur][1] == "optrow":
            # one struct per line: { "name", { TYPE, &parser, &getter } },
            if re.match(r"\s*\}\s*;", line):
                if len(stack) != depth0:
                    probs.append("array closed inside a conditional")
                out[cur] = (rows, not probs, probs)
                cur = None
                continue
            if not line.strip():
                continue
            m = re.fullmatch(r'\s*\{\s*"((?:\\.|[^"\\])*)"\s*,\s*\{\s*(\w+)\s*,\s*&?\s*(\w+)\s*,\s*&?\s*(\w+)\s*\}\s*\}\s*,?\s*', line)
            if m and NAME_OK.match(m.group(1)):
                item = (m.group(1), m.group(2), m.group(3), m.group(4))
            else:
                probs.append("row not recognised: %s" % line.strip()[:80])
                item = ("?", "?", "?", "?")
            guards = []
            for fr in stack:
                if fr is None:
                    if "row under an unrecognised conditional" not in probs:
                        probs.append("row under an unrecognised conditional")
                else:
                    guards += fr
            rows.append((guards, item))
            continue
        # inside an array: items separated by commas, closed by }
        closed = False
        if "}" in line:
            line = line[:line.index("}")]
            closed = True
        for tok in line.split(","):
            tok = tok.strip()
            if not tok:
                continue
            typ = arrays[cur][1]
            item = None
            if typ == "str":
                m = re.fullmatch(r'"((?:\\.|[^"\\])*)"', tok)
                if m:
                    try:
                        item = c_unescape(m.group(1)).decode("ascii")
                    except Exception:
                        item = None
                    if item is not None and not NAME_OK.match(item):
                        probs.append("name with characters outside [A-Za-z0-9_]: %r" % item)
                        item = re.sub(r"[^A-Za-z0-9_]", "?", item)
            else:
                m = re.fullmatch(IDENT, tok)
                if m:
                    item = tok
            if item is None:
                probs.append("item not recognised: %s" % tok[:60])
                item = "?" + re.sub(r"[^A-Za-z0-9_]", "?", tok)[:40]
            guards = []
            for fr in stack:
                if fr is None:
                    if "row under an unrecognised conditional" not in probs:
                        probs.append("row under an unrecognised conditional")
                else:
                    guards += fr
            rows.append((guards, item))
        if closed:
            if len(stack) != depth0:
                probs.append("array closed inside a conditional")
            out[cur] = (rows, not probs, probs)
            cur = None
    if cur is not None:
        out[cur] = (rows, False, probs + ["array not closed"])
    return out, defined_here


# ------------------------------------------------------------------------------------ lookup shapes
def squeeze(s):
    return re.sub(r"\s+", "", s or "")


def def_body(src, name):
    """body of the DEFINITION of function `name` (a line starting with the return type), comments already stripped"""
    m = re.search(r"^[A-Za-z_][\w \t\*]*?\b" + re.escape(name) + r"\s*\([^;{}]*\)\s*\{", src, re.M)
    if not m:
        return None
    return func_body(src[m.start():], name)


# The loop-free functions are compared with these reference texts by symbolic execution (vlib/cshape.py): same set of
# (path condition, calls made, returned expression) modulo parameter names, locals, braces, else-after-return, inverted or
# constant-first conditions, ?: -- i.e. the behaviour the Coq model (Registry/Model.v) transcribes.
REF_GENERIC = """
int snoopy_genericregistry_doesIdExist (char *regArray[], int itemId)
{
    if ((0 <= itemId ) && (itemId < snoopy_genericregistry_getCount(regArray))) { return SNOOPY_TRUE; } else { return SNOOPY_FALSE; }
}
int snoopy_genericregistry_doesNameExist (char *regArray[], char const * const itemName)
{
    if (snoopy_genericregistry_getIdFromName(regArray, itemName) == -1) { return SNOOPY_FALSE; } else { return SNOOPY_TRUE; }
}
char* snoopy_genericregistry_getName (char *regArray[], int itemId)
{
    if (snoopy_genericregistry_doesIdExist(regArray, itemId)) { return regArray[itemId]; }
    return NULL;
}
"""
REF_REGISTRY = """
int R_getCount () { return snoopy_genericregistry_getCount(R_names); }
int R_doesIdExist (int id) { return snoopy_genericregistry_doesIdExist(R_names, id); }
int R_doesNameExist (char const * const name) { return snoopy_genericregistry_doesNameExist(R_names, name); }
int R_getIdFromName (char const * const name) { return snoopy_genericregistry_getIdFromName(R_names, name); }
char* R_getName (int id) { return snoopy_genericregistry_getName(R_names, id); }
"""
REF_CALLS = {
    "datasource": """
int R_callById (int id, char * const resultBuf, size_t resultBufSize, char const * const arg)
{ if (SNOOPY_FALSE == R_doesIdExist(id)) { return -1; } return R_ptrs[id](resultBuf, resultBufSize, arg); }
int R_callByName (char const * const name, char * const resultBuf, size_t resultBufSize, char const * const arg)
{ int id; id = R_getIdFromName(name); if (id == -1) { return -1; } return R_ptrs[id](resultBuf, resultBufSize, arg); }
""",
    "filter": """
int R_callById (int id, char const * const arg)
{ if (SNOOPY_FALSE == R_doesIdExist(id)) { return -1; } return R_ptrs[id](arg); }
int R_callByName (char const * const name, char const * const arg)
{ int id; id = R_getIdFromName(name); if (id == -1) { return -1; } return R_ptrs[id](arg); }
""",
    "output": """
int R_callById (int id, char const * const logMessage, char const * const arg)
{ if (SNOOPY_FALSE == R_doesIdExist(id)) { return -1; } return R_ptrs[id](logMessage, arg); }
int R_callByName (char const * const name, char const * const logMessage, char const * const arg)
{ int id; id = R_getIdFromName(name); if (id == -1) { return -1; } return R_ptrs[id](logMessage, arg); }
int R_dispatch (char const * const logMessage)
{ const snoopy_configuration_t *CFG; CFG = snoopy_configuration_get(); return R_callByName(CFG->output, logMessage, CFG->output_arg); }
""",
}


def shape_kw(prefixes):
    return dict(bool_calls=[p + f for p in prefixes for f in ("_doesIdExist", "_doesNameExist")],
                id_calls=[p + "_getIdFromName" for p in prefixes])


def unbrace(b):
    """squeezed loop text: drop braces around a single simple statement, merge `int i; i = 0;`"""
    prev = None
    while prev != b:
        prev = b
        b = re.sub(r"\{(return[^;{}]*;|i\+\+;|\+\+i;|i\+=1;)\}", r"\1", b)
        b = re.sub(r"\{(if\([^{}]*\)return[^;{}]*;)\}", r"\1", b)
        b = re.sub(r"\{\}", ";", b)
    b = re.sub(r"\binti;i=0;", "inti=0;", b)
    b = re.sub(r"\binti;for\(i=0;", "for(inti=0;", b)
    b = b.replace("++i", "i++").replace("i+=1", "i++")
    return b


def canon_loop(src, fname, canon_params):
    """Body of the definition of `fname`, canonicalised for the loop patterns: parameters renamed positionally to `canon_params`,
    the (single) int local renamed to `i`, whitespace removed, optional braces dropped, declaration and initialisation merged."""
    from .cshape import find_def
    d = find_def(src, fname)
    if d is None:
        return ""
    params, body = d
    if len(params) != len(canon_params):
        return squeeze(body)
    ren = dict((p, "\x00%d\x00" % i) for i, p in enumerate(params))
    m = re.search(r"\bint\s+(?:const\s+)?([A-Za-z_]\w*)\s*(?:=|;)", body)
    if m and m.group(1) not in params and len(re.findall(r"\b(?:int|size_t|long|unsigned|char)\s+[\*\w]", body)) == 1:
        ren[m.group(1)] = "\x00i\x00"
    # strings are kept as they are
    parts = re.split(r'("(?:\\.|[^"\\])*")', body)
    for k in range(0, len(parts), 2):
        parts[k] = re.sub(r"\b[A-Za-z_]\w*\b", lambda mm: ren.get(mm.group(0), mm.group(0)), parts[k])
    body = "".join(parts)
    for i, c in enumerate(canon_params):
        body = body.replace("\x00%d\x00" % i, c)
    body = body.replace("\x00i\x00", "i")
    return unbrace(squeeze(body))


def lookup_shape(run):
    """Recognise the generic lookup functions and the per-registry wrappers.
    Returns (sentinel or None, ok, problems)."""
    probs = []
    g = strip_comments(run.src("src/genericregistry.c"))
    S = r'"((?:\\.|[^"\\])*)"'
    ne = lambda a: r"(?:%s!=0|0!=%s)" % (a, a)
    eq = lambda a: r"(?:%s==0|0==%s|!%s)" % (a, a, a)
    cmp_s = r"strcmp\(regArray\[i\]," + S + r"\)"
    cmp_n = eq(r"strcmp\(regArray\[i\],itemName\)")
    sentinels = []
    # the two loops (also tied behaviourally: stream "generic" of the check)
    b = canon_loop(g, "snoopy_genericregistry_getCount", ["regArray"])
    m = (re.fullmatch(r"inti=0;while\(" + ne(cmp_s) + r"\)i\+\+;returni;", b)
         or re.fullmatch(r"for\(inti=0;" + ne(cmp_s) + r";i\+\+\);returni;", b)
         or re.fullmatch(r"inti=0;for\(;" + ne(cmp_s) + r";i\+\+\);returni;", b))
    if m:
        sentinels.append([x for x in m.groups() if x is not None][0])
    else:
        probs.append("genericregistry getCount: loop not of a recognised form (while/for up to the sentinel, counting): %s" % b[:120])
    b = canon_loop(g, "snoopy_genericregistry_getIdFromName", ["regArray", "itemName"])
    m = (re.fullmatch(r"for\(inti=0;" + ne(cmp_s) + r";i\+\+\)if\(" + cmp_n + r"\)returni;return-1;", b)
         or re.fullmatch(r"inti=0;while\(" + ne(cmp_s) + r"\)\{if\(" + cmp_n + r"\)returni;i\+\+;\}return-1;", b))
    if m:
        sentinels.append([x for x in m.groups() if x is not None][0])
    else:
        probs.append("genericregistry getIdFromName: loop not of a recognised form (first strcmp match before the sentinel, else -1): %s" % b[:160])
    kw = shape_kw(["snoopy_genericregistry"])
    for fn in ("doesIdExist", "doesNameExist", "getName"):
        ok, why = same_shape(g, "snoopy_genericregistry_" + fn, REF_GENERIC, **kw)
        if not ok:
            probs.append("genericregistry " + why)
    sentinel = None
    if len(sentinels) == 2 and sentinels[0] == sentinels[1]:
        try:
            sentinel = c_unescape(sentinels[0]).decode("ascii")
        except Exception:
            sentinel = None
        if sentinel is not None and not NAME_OK.match(sentinel):
            sentinel = None
    if sentinel is None:
        probs.append("genericregistry: sentinel literal not recognised (or differs between getCount and getIdFromName)")
    # per-registry wrappers and calls
    for _, _, kind in KINDS:
        r = "snoopy_%sregistry" % kind
        src = strip_comments(run.src("src/%sregistry.c" % kind))
        ref = (REF_REGISTRY + REF_CALLS[kind]).replace("R_", r + "_")
        kw = shape_kw([r, "snoopy_genericregistry"])
        statics = re.findall(r"^static\b[\w \t\*]*?\b(\w+)\s*\([^;{}]*\)\s*\{", src, re.M)
        kw["inline_names"] = [r + "_callById"] + statics          # callByName may hand over to callById / to a file-local helper
        kw["exists_of_id"] = [(r + "_doesIdExist", r + "_getIdFromName")]
        for fn in ENTRY_FUNCS:
            ok, why = same_shape(src, "%s_%s" % (r, fn), ref, **kw)
            if not ok:
                probs.append(why)
    return sentinel, not probs, probs


ENTRY_FUNCS = ("getCount", "doesIdExist", "doesNameExist", "getIdFromName", "getName", "callById", "callByName")


def entry_points(run):
    """Every way from a name / id / CFG->output to a call must be one of the modelled entry points.
    -> (entries_ok, dispatch_recognised, problems)"""
    import glob
    probs = []
    dispatch_ok = False
    for _, _, kind in KINDS:
        r = "snoopy_%sregistry" % kind
        path = "src/%sregistry.c" % kind
        src = strip_comments(run.src(path))
        allowed = set("%s_%s" % (r, f) for f in ENTRY_FUNCS)
        if kind == "output":
            allowed.add(r + "_dispatch")
        found = re.findall(r"^[A-Za-z_][\w \t\*]*?\b(\w+)\s*\([^;{}]*\)\s*\{", src, re.M)
        statics = set(re.findall(r"^static\b[\w \t\*]*?\b(\w+)\s*\([^;{}]*\)\s*\{", src, re.M))
        for fn in found:
            if fn in statics:
                continue          # file-local helper: reachable only through the entry points, whose shapes are compared with it inlined
            if fn not in allowed:
                probs.append("%s defines a function that is not a modelled entry point: %s" % (path, fn))
        for fn in allowed:
            if found.count(fn) != 1:
                probs.append("%s: %s defined %d times" % (path, fn, found.count(fn)))
        for m in re.finditer(r"^[ \t]*#[ \t]*define[ \t]+(\w+)\(", src, re.M):
            probs.append("%s defines a function-like macro: %s" % (path, m.group(1)))
        if kind == "output":
            ok, why = same_shape(src, r + "_dispatch", (REF_REGISTRY + REF_CALLS[kind]).replace("R_", r + "_"), **shape_kw([r]))
            if ok:
                dispatch_ok = True
            else:
                probs.append("%s (expected: return callByName(CFG->output, logMessage, CFG->output_arg) and nothing else)" % why)
    # nobody else may index the arrays
    own = set(os.path.join(run.tree, "src", "%sregistry.c" % kind) for _, _, kind in KINDS)
    for f in sorted(glob.glob(os.path.join(run.tree, "src", "**", "*.[ch]"), recursive=True)):
        if f in own:
            continue
        t = strip_comments(open(f, encoding="utf-8", errors="replace").read())
        m = re.search(r"\bsnoopy_(?:datasource|filter|output)registry_(?:ptrs|names)\b", t)
        if m:
            probs.append("%s refers to %s outside its registry file" % (os.path.relpath(f, run.tree), m.group(0)))
    # ids are positions in a configuration-dependent array: the registry headers publish no numeric id
    for _, _, kind in KINDS:
        hp = "src/%sregistry.h" % kind
        try:
            ht = strip_comments(run.src(hp))
        except OSError:
            continue
        for m in re.finditer(r"^[ \t]*#[ \t]*define[ \t]+(\w+)[ \t]+\(?\s*-?\d+", ht, re.M):
            probs.append("%s publishes a numeric constant (%s): a registry id is only meaningful in one build configuration" % (hp, m.group(1)))
    # a feature switch decides whether a NAME exists, nothing else: SNOOPY_CONF_<KIND>_ENABLED_<name> is tested in the registries only
    # (code elsewhere that depends on one makes what a name runs depend on another feature's switch)
    mentions = []
    for f in sorted(glob.glob(os.path.join(run.tree, "src", "**", "*.[ch]"), recursive=True)):
        if f in own:
            continue
        t = strip_comments(open(f, encoding="utf-8", errors="replace").read())
        gs = sorted(set(FEATURE_RE.findall(t)))
        if gs:
            rel = os.path.relpath(f, run.tree)
            mentions.append((rel, gs))
            probs.append("%s tests the feature switch(es) %s outside the registries: the code a name runs there depends on a feature's enable switch" % (rel, ", ".join(gs)[:200]))
    entry_points.mentions = mentions
    # no switch misspelt on the testing side: every SNOOPY_*ENABLED* macro a preprocessor conditional tests is one configure can define
    # (config.h.in template) or one the sources derive (#define)
    tested, defined = {}, set()
    try:
        defined |= set(re.findall(r"^#\s*undef\s+(SNOOPY_\w+)", run.src("config.h.in"), re.M))
    except OSError:
        pass
    for f in sorted(glob.glob(os.path.join(run.tree, "src", "**", "*.[ch]"), recursive=True)):
        t = strip_comments(open(f, encoding="utf-8", errors="replace").read())
        defined |= set(re.findall(r"^[ \t]*#[ \t]*define[ \t]+(SNOOPY_\w+)", t, re.M))
        for line in re.findall(r"^[ \t]*#[ \t]*(?:ifdef|ifndef|if|elif)\b[^\n]*", t, re.M):
            for mac in re.findall(r"SNOOPY_\w*ENABLED\w*", line):
                tested.setdefault(mac, os.path.relpath(f, run.tree))
    for mac, where in sorted(tested.items()):
        if mac not in defined:
            probs.append("%s tests %s, a macro that neither configure (config.h.in) nor any #define provides: a misspelt switch" % (where, mac))
    # who uses the registries' API: (file, function) pairs outside the three registry files
    callers = []
    for f in sorted(glob.glob(os.path.join(run.tree, "src", "**", "*.c"), recursive=True)):
        if f in own:
            continue
        t = strip_comments(open(f, encoding="utf-8", errors="replace").read())
        used = sorted(set(re.findall(r"\bsnoopy_(?:datasource|filter|output)registry_[A-Za-z]+\b", t)))
        for fn in used:
            callers.append((os.path.relpath(f, run.tree), fn))
        # the looked-up name must not live in storage shared between calls / threads: no static local in a function that asks a registry
        if used:
            for m in re.finditer(r"^[A-Za-z_][\w \t\*]*?\b(\w+)\s*\([^;{}]*\)\s*\{", t, re.M):
                body = func_body(t[m.start():], m.group(1)) or ""
                if re.search(r"\bsnoopy_(?:datasource|filter|output)registry_[A-Za-z]+\s*\(", body):
                    ms = re.search(r"\bstatic\b[^;=]*[;=]", body)
                    if ms:
                        probs.append("%s: %s asks a registry and keeps state in static storage (%s): a name looked up there is shared between calls and threads"
                                     % (os.path.relpath(f, run.tree), m.group(1), " ".join(ms.group(0).split())[:80]))
    return not probs, dispatch_ok, probs, callers


# ------------------------------------------------------------------------------------ configure.ac
def configure_switches(run):
    """-> (feature guards, generic guards, config.h.in feature templates, notes)"""
    notes = []
    ac = run.src("configure.ac")
    # the guard each SNOOPY_CONFIGURE_<KIND>_* macro defines: from build/snoopy.m4 of the tree when it is there
    prefix = dict((k.upper(), GUARD_PREFIX[k]) for k in GUARD_PREFIX)
    m4 = os.path.join(REPO, "build", "snoopy.m4")
    if os.path.exists(m4):
        os.makedirs(os.path.join(run.tree, "build"), exist_ok=True)
        shutil.copy(m4, os.path.join(run.tree, "build", "snoopy.m4"))
        t = open(m4, encoding="utf-8", errors="replace").read()
        for K in ("DATASOURCE", "FILTER", "OUTPUT"):
            found = set(re.findall(r"AC_DEFINE(?:_UNQUOTED)?\(\s*\[?(\w+?)\$1", "\n".join(
                b for b in re.findall(r"AC_DEFUN\(\[SNOOPY_CONFIGURE_%s_(?:ENABLEDISABLE|FORCE)\],.*?\n\]\)" % K, t, re.S))))
            if len(found) == 1:
                prefix[K] = found.pop()
            else:
                notes.append("translator: build/snoopy.m4: guard defined by SNOOPY_CONFIGURE_%s_* not recognised (%s)" % (K, sorted(found)))
                prefix[K] = "?UNRECOGNISED_" + K + "_"
    else:
        notes.append("translator: build/snoopy.m4 not in the tree; SNOOPY_CONF_<KIND>_ENABLED_<name> assumed for the configure macros")
    feats = []
    for m in re.finditer(r"^[ \t]*SNOOPY_CONFIGURE_(DATASOURCE|FILTER|OUTPUT)_(ENABLE|DISABLE|FORCE|FORCEDISABLE)\(\s*\[(\w+)\]", ac, re.M):
        g = prefix[m.group(1)] + m.group(3)
        if g not in feats:
            feats.append(g)
    generic = []
    for m in re.finditer(r"^[ \t]*SNOOPY_CONFIGURE_ENABLE_GENERIC_EVALUATE\(\s*\[[^\]]*\]\s*,\s*\[(\w+)\]", ac, re.M):
        generic.append("SNOOPY_CONF_" + m.group(1))
    for m in re.finditer(r"^[ \t]*AC_DEFINE(?:_UNQUOTED)?\(\s*\[?(SNOOPY_CONF_\w+)", ac, re.M):
        if m.group(1) not in generic:
            generic.append(m.group(1))
    hin = []
    try:
        for m in re.finditer(r"^#\s*undef\s+(%s)\s*$" % FEATURE_RE.pattern, run.src("config.h.in"), re.M):
            if m.group(1) not in hin:
                hin.append(m.group(1))
    except OSError:
        notes.append("translator: config.h.in missing")
    return feats, generic, hin, notes


# ------------------------------------------------------------------------------------ EXTENSION: option registry of configfile.c
def tr_options(run, notes):
    path = "src/configfile.c"
    src = strip_comments(run.src(path))
    res, defined_here = read_arrays(src, {"opts": (r"\bsnoopy_configfile_option_t\s+snoopy_configfile_optionRegistry\s*\[\s*\]\s*=\s*\{", "optrow")})
    rows, ok, probs = res["opts"]
    for p in probs:
        notes.append("translator: %s optionRegistry: %s" % (path, p))
    # guards of the rows are macros derived in snoopy.h from the configure switches:  #ifdef SNOOPY_CONF_X / #define SNOOPY_X 1 / #endif
    sn = strip_comments(run.src("src/snoopy.h"))
    derived = {}
    for m in re.finditer(r"^[ \t]*#\s*ifdef\s+(\w+)\s*\n[ \t]*#\s*define\s+(\w+)\s+1\s*\n[ \t]*#\s*endif", sn, re.M):
        derived[m.group(2)] = m.group(1)
    rows2 = []
    for gs, it in rows:
        g2 = []
        for g in gs:
            if g in derived and len(re.findall(r"#\s*(?:define|undef)\s+%s\b" % re.escape(g), sn)) == 1 and g not in defined_here:
                g2.append(derived[g])
            elif g.startswith("SNOOPY_CONF_"):
                g2.append(g)
            else:
                ok = False
                notes.append("translator: optionRegistry guard %s: not a configure switch and not derived from one in snoopy.h" % g)
                g2.append(g)
        rows2.append((g2, it))
    # lookup shapes
    lk = True
    R = "snoopy_configfile_optionRegistry"
    S = r'"((?:\\.|[^"\\])*)"'
    loop = r"for\(inti=0;(?:0!=strcmp\(%s\[i\]\.name,%s\)|strcmp\(%s\[i\]\.name,%s\)!=0);i\+\+\)\{if\((?:strcmp\(%s\[i\]\.name,optionName\)==0|0==strcmp\(%s\[i\]\.name,optionName\))\)\{return%%s;\}\}return%%s;" % (R, S, R, S, R, R)
    sents = []
    b = squeeze(def_body(src, R + "_getIdFromName"))
    m = re.fullmatch(loop % ("i", "(?:SNOOPY_CONFIGFILE_OPTION_NOT_SUPPORTED|-1)"), b)
    if m:
        sents.append([x for x in m.groups() if x is not None][0])
    else:
        lk = False
        notes.append("translator: %s_getIdFromName: shape not recognised" % R)
    m = re.search(r"[\w\*\s\(\)\"]*?\b%s_getOptionValueAsString\s*\([^;{}]*\)\s*\{" % R, src)
    b = squeeze(func_body(src[m.start():], R + "_getOptionValueAsString")) if m else ""
    m = re.fullmatch(loop % (r"%s\[i\]\.data\.getValueAsStringPtr\(\)" % R, "NULL"), b)
    loop_free_getter = False
    if m:
        sents.append([x for x in m.groups() if x is not None][0])
    else:
        # the loop-free form: resolve the id through getIdFromName, refuse "not supported", use that row's getter
        plain = re.sub(r"__attribute__\s*\(\([^;{}]*?\)\)\)?[ \t]*", "", src).replace("SNOOPY_CONFIGFILE_OPTION_NOT_SUPPORTED", "-1")
        plain = re.sub(r"^[ \t]*#[^\n]*$", "", plain, flags=re.M)
        ref = ("char * %s_getOptionValueAsString (char const * const optionName)\n{ int id = %s_getIdFromName(optionName); if (id == -1) { return NULL; } "
               "return %s[id].data.getValueAsStringPtr(); }\n" % (R, R, R))
        okk, why = same_shape(plain, R + "_getOptionValueAsString", ref, id_calls=[R + "_getIdFromName"])
        if okk:
            loop_free_getter = True
        else:
            lk = False
            notes.append("translator: %s (neither the lookup loop nor getIdFromName + refusal + that row's getter)" % why)
    b = squeeze(def_body(src, "snoopy_configfile_iniParser_callback"))
    if not re.search(r"intoptionId=%s_getIdFromName\(name\);if\(optionId!=SNOOPY_CONFIGFILE_OPTION_NOT_SUPPORTED\)\{return%s\[optionId\]\.data\.valueParserPtr\(confValString,CFG\);\}" % (R, R), b):
        lk = False
        notes.append("translator: snoopy_configfile_iniParser_callback: dispatch through the option registry not recognised")
    if not re.search(r"#\s*define\s+SNOOPY_CONFIGFILE_OPTION_NOT_SUPPORTED\s+-1\b", src):
        lk = False
        notes.append("translator: SNOOPY_CONFIGFILE_OPTION_NOT_SUPPORTED is not -1")
    want = 1 if loop_free_getter else 2
    sentinel = sents[0] if len(sents) == want and len(set(sents)) == 1 and NAME_OK.match(sents[0]) else None
    if sentinel is None:
        lk = False
        notes.append("translator: optionRegistry: sentinel literal not recognised")
    return {"rows": rows2, "lex_ok": bool(ok), "lookup_ok": lk, "sentinel": sentinel, "derived": derived}


def coq_optrows(rows, indent="     "):
    if not rows:
        return "[]"
    return "[\n" + ";\n".join("%s(%s, (%s, (%s, %s)))" % (indent, coq_list(coq_str(g) for g in gs), coq_str(it[0]), coq_str(it[2]), coq_str(it[3])) for gs, it in rows) + " ]"


# ------------------------------------------------------------------------------------ main entry
def tr_registry(run):
    """Returns the dict also written to consts_registry.json."""
    regs = {}
    notes = []
    for key, coqkind, kind in KINDS:
        path = "src/%sregistry.c" % kind
        src = strip_comments(run.src(path))
        r = "snoopy_%sregistry" % kind
        arrays = {
            "names": (r"\bchar\s*\*\s*%s_names\s*\[\s*\]\s*=\s*\{" % r, "str"),
            "ptrs": (r"(?:\bint\s*\(\s*\*\s*%s_ptrs\s*\[\s*\]\s*\)\s*\([^)]*\)|\b\w+_t\s+%s_ptrs\s*\[\s*\])\s*=\s*\{" % (r, r), "id"),
        }
        res, defined_here = read_arrays(src, arrays)
        lex_ok = True
        for a in ("names", "ptrs"):
            rows, ok, probs = res[a]
            if not ok:
                lex_ok = False
                for p in probs:
                    notes.append("translator: %s %s_%s: %s" % (path, r, a, p))
        used = set(g for a in ("names", "ptrs") for gs, _ in res[a][0] for g in gs)
        clash = [d for d in defined_here if d in used]
        if clash:
            lex_ok = False
            notes.append("translator: %s defines/undefines a guard macro itself: %s" % (path, clash))
        regs[key] = {"kind": kind, "coqkind": coqkind, "names": res["names"][0], "ptrs": res["ptrs"][0], "lex_ok": lex_ok}
    sentinel, lookup_ok, probs = lookup_shape(run)
    for p in probs:
        notes.append("translator: " + p)
    entries_ok, dispatch_ok, probs, callers = entry_points(run)
    for p in probs:
        notes.append("translator: " + p)
    feats, generic, hin, n2 = configure_switches(run)
    notes += n2
    opts = tr_options(run, notes)
    run.notes += notes

    def reg_term(r):
        return ("{| r_kind := %s;\n   r_names := %s;\n   r_ptrs := %s;\n   r_lex_ok := %s |}"
                % (r["coqkind"], coq_rows(r["names"]), coq_rows(r["ptrs"]), "true" if r["lex_ok"] else "false"))
    text = ("(* GENERATED from the current working tree by vlib/tr_registry.py -- do not edit *)\n"
            "From Coq Require Import String List.\nFrom Snoopy Require Import Registry.Model Registry.Options.\nImport ListNotations.\nLocal Open Scope string_scope.\n\n"
            + "".join("Definition %s : registry :=\n  %s.\n\n" % (k, reg_term(regs[k])) for k, _, _ in KINDS)
            + "Definition consts : registry_consts :=\n  {| rc_sentinel := %s;\n     rc_lookup_ok := %s;\n     rc_entries_ok := %s;\n     rc_dispatch := %s;\n     rc_callers := %s;\n     rc_ds := ds; rc_flt := flt; rc_out := out;\n"
              "     rc_configure_features := %s;\n     rc_configure_generic := %s;\n     rc_confighin := %s |}.\n"
            % (coq_str(sentinel if sentinel is not None else ""), "true" if lookup_ok else "false",   # unrecognised: lookup_ok is false, "" keeps the model runnable
               "true" if entries_ok else "false", "DispatchCallByName" if dispatch_ok else "DispatchOther",
               coq_list("(%s, %s)" % (coq_str(f), coq_str(fn)) for f, fn in callers),
               coq_list(coq_str(g) for g in feats), coq_list(coq_str(g) for g in generic), coq_list(coq_str(g) for g in hin)))
    text += ("\n(* EXTENSION: option registry of src/configfile.c (guards rewritten to the configure switch they are derived from in snoopy.h) *)\n"
             "Definition options : opt_registry :=\n  {| o_rows := %s;\n     o_sentinel := %s;\n     o_lex_ok := %s;\n     o_lookup_ok := %s |}.\n"
             % (coq_optrows(opts["rows"]), coq_str(opts["sentinel"] or ""), "true" if opts["lex_ok"] else "false", "true" if opts["lookup_ok"] else "false"))
    run.write_gen("Gen_Registry.v", text)
    js = {"sentinel": sentinel, "lookup_ok": lookup_ok, "entries_ok": entries_ok, "dispatch_ok": dispatch_ok, "callers": callers, "guard_mentions": getattr(entry_points, "mentions", []), "configure_features": feats, "configure_generic": generic, "confighin": hin,
          "registries": {k: {"kind": regs[k]["kind"], "names": regs[k]["names"], "ptrs": regs[k]["ptrs"], "lex_ok": regs[k]["lex_ok"]} for k in regs},
          "options": opts, "notes": notes}
    json.dump(js, open(os.path.join(run.scratch, "consts_registry.json"), "w"), indent=1)
    return js


# ------------------------------------------------------------------------------------ helpers shared with the check
def guard_universe(js):
    """every guard macro that occurs in a registry or that configure can define as a feature switch (stable order)"""
    u = []
    for k in ("ds", "flt", "out"):
        for a in ("names", "ptrs"):
            for gs, _ in js["registries"][k][a]:
                for g in gs:
                    if g not in u:
                        u.append(g)
    for g in js["configure_features"] + js["confighin"]:
        if g not in u and not g.startswith("?"):
            u.append(g)
    return u


def py_select(rows, defined):
    return [it for gs, it in rows if all(g in defined for g in gs)]
