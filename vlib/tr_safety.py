"""T1 translator for area Safety (C02): every capacity, copy length, index expression, terminator
statement and limit used by coq/theories/Safety/*.v, re-read from the snapshot.

tr_safety(run) writes Gen_Safety.v (record safety_consts), consts_safety.json/.tsv and returns the dict.
A pattern that no longer matches yields None -> the 'bad' default of the field (which makes
safety_consts_ok false) and a note.  Numeric expressions are evaluated by the build's own compiler
in the context of the file they come from (macro definitions of that file + snoopy.h + config.h).

scan_datasources(run) is the conservative syntactic check for the data sources that are not modelled:
every write to resultBuf must be one of the bounded forms.
"""
import os, re, subprocess, json
from .core import CheckError, hexs
from .translate import strip_comments, func_body, c_unescape, emit, write_sidecars, STR, defines, reachable_body, resolve_locals


_base_func_body = func_body


def func_body(src, name):
    """Body of the DEFINITION of `name`: the parenthesised parameter list (balanced) must be followed directly by '{', and the name must be
    preceded by a type token (not by '(', '=', '!', ',' or a keyword), so that a call inside a condition is not mistaken for it."""
    for m in re.finditer(r"\b" + re.escape(name) + r"\s*\(", src):
        i, depth = m.end(), 1
        while i < len(src) and depth:
            depth += {"(": 1, ")": -1}.get(src[i], 0)
            i += 1
        k = i
        while k < len(src) and src[k] in " \t\r\n":
            k += 1
        if k >= len(src) or src[k] != "{":
            continue
        before = src[:m.start()].rstrip()
        if not before or not (before[-1].isalnum() or before[-1] in "_*") or re.search(r"\b(return|if|while|else|case)\s*$", before):
            continue
        j, depth = k + 1, 1
        while j < len(src) and depth:
            if src[j] == "{":
                depth += 1
            elif src[j] == "}":
                depth -= 1
            elif src[j] == '"':
                j += 1
                while j < len(src) and src[j] != '"':
                    j += 2 if src[j] == "\\" else 1
            j += 1
        return src[k + 1:j - 1]
    return None


def _reach(src, fn, depth=2):
    """func_body(fn) + bodies of the file-local static functions it calls (definition finder above)"""
    body = func_body(src, fn) or ""
    seen, todo, out = {fn}, [(body, 0)], [body]
    statics = set(re.findall(r"^\s*static\s+[\w\s\*]+?\b(\w+)\s*\(", src, re.M))
    while todo:
        b, d = todo.pop()
        if d >= depth:
            continue
        for nm in statics:
            if nm not in seen and re.search(r"\b%s\s*\(" % re.escape(nm), b):
                seen.add(nm)
                hb = func_body(src, nm) or ""
                out.append(hb)
                todo.append((hb, d + 1))
    return "\n".join(out)


def _eval_many(run, items, includes=("limits.h", "stddef.h", "sys/un.h", "snoopy.h"), extra_defs=""):
    """items: list of (key, expr).  Returns {key: int or None}. One compile for all; a failing expression
    is retried alone so that one bad expression does not hide the others."""
    def build(its):
        prog = "".join("#include <%s>\n" % i for i in includes) + extra_defs + "\n#include <stdio.h>\nint main(){\n"
        for k, ex in its:
            prog += 'printf("%s %%lld\\n",(long long)(%s));\n' % (k, ex)
        prog += "return 0;}\n"
        exe = os.path.join(run.scratch, "safeval")
        p = subprocess.run(["gcc", "-x", "c", "-", "-o", exe, "-I" + run.tree, "-I" + os.path.join(run.tree, "src"), "-DHAVE_CONFIG_H", "-w"] + run.inih_defs(),
                           input=prog, text=True, stdout=subprocess.PIPE, stderr=subprocess.STDOUT)
        if p.returncode != 0:
            return None
        out = subprocess.run([exe], stdout=subprocess.PIPE, text=True).stdout
        return {l.split()[0]: int(l.split()[1]) for l in out.splitlines() if l.strip()}
    items = [(k, ex) for k, ex in items if ex is not None]
    r = build(items)
    if r is not None:
        return r
    res = {}
    for it in items:
        r1 = build([it])
        res[it[0]] = r1[it[0]] if r1 else None
    return res


def _local_defs(src):
    """#define lines of a .c/.h file (object-like macros only), as C text."""
    out = []
    for m in re.finditer(r"^[ \t]*#[ \t]*define[ \t]+([A-Za-z_][A-Za-z_0-9]*)[ \t]+([^\n]+?)[ \t]*$", strip_comments(src), re.M):
        if "(" in m.group(1):
            continue
        out.append("#undef %s\n#define %s %s\n" % (m.group(1), m.group(1), m.group(2)))
    return "".join(out)


def _arr(body, name):
    """size expression of  char <name>[<expr>]  in a function body / file"""
    m = re.search(r"\bchar\s+" + re.escape(name) + r"\s*\[([^\]]+)\]", body)
    return m.group(1).strip() if m else None


def tr_safety(run):
    v = {}
    ev = []          # (key, expr) evaluated in the global context
    notes = run.notes

    # ---------------------------------------------------------------- util/string.c, message.c, log-syscall-exec.c
    sbody = func_body(strip_comments(run.src("src/util/string.c")), "snoopy_util_string_append") or ""
    m = re.search(r"if\s*\(\s*destStringSizeRemaining\s*(<=|<)\s*appendThisSize\s*\)", sbody)
    v["s_append_strict"] = (m.group(1) == "<=") if m else None
    # the copy: strcat at the terminator, or a memcpy of strlen(appendThis) + 1 bytes to the same place; the three sizes may be
    # assigned separately or in their declarations (any qualifiers)
    copy_ok = (re.search(r"strcat\s*\(\s*&\s*destString\s*\[\s*destStringSize\s*\]\s*,\s*appendThis\s*\)", sbody)
               or re.search(r"memcpy\s*\(\s*(?:destString\s*\+\s*destStringSize|&\s*destString\s*\[\s*destStringSize\s*\])\s*,\s*appendThis\s*,\s*appendThisSize\s*\+\s*1\s*\)", sbody))
    sizes_ok = (re.search(r"\bdestStringSize\s*=\s*strlen\s*\(\s*destString\s*\)\s*;", sbody) and re.search(r"\bappendThisSize\s*=\s*strlen\s*\(\s*appendThis\s*\)\s*;", sbody)
                and re.search(r"\bdestStringSizeRemaining\s*=\s*destStringBufSize\s*-\s*destStringSize\s*;", sbody))
    if not (copy_ok and sizes_ok):
        notes.append("translator(safety): util/string.c append: copy statement or size computations not recognised")
        v["s_append_strict"] = None
    msg = strip_comments(run.src("src/message.c"))
    body = func_body(msg, "snoopy_message_generateFromFormat") or ""
    m = re.search(r"dataSourceMsgBufSize\s*=\s*([^;]+);", body)
    e = m.group(1).replace(" ", "") if m else ""
    mm = re.fullmatch(r"dataSourceMsgMaxLength(?:\+(\d+))?", e)
    v["s_ds_buf_adj"] = (int(mm.group(1) or 0)) if mm else None
    if not re.search(r"dataSourceMsg\s*=\s*malloc\s*\(\s*dataSourceMsgBufSize\s*\)", body):
        v["s_ds_buf_adj"] = None
    ev.append(("s_ds_arg_max", _arr(body, "dataSourceArg")))
    rbody = _reach(msg, "snoopy_message_generateFromFormat")
    v["s_ds_pre_nul"] = bool(re.search(r"dataSourceMsg\s*\[\s*0\s*\]\s*=\s*'\\0'\s*;\s*\w+\s*=\s*snoopy_datasourceregistry_callByName\s*\(\s*\w+\s*,\s*dataSourceMsg\s*,\s*dataSourceMsgBufSize\s*,", rbody)
                             and len(re.findall(r"snoopy_datasourceregistry_callByName\s*\(", rbody)) == 1)
    m = re.search(r"strndup\s*\(\s*fmtPos_nextFormatTag\s*\+\s*(\d+)\s*,\s*\(size_t\)\s*\(\s*fmtPos_nextFormatTagClose\s*-\s*\(\s*fmtPos_nextFormatTag\s*\+\s*(\d+)\s*\)\s*\)\s*\)", body)
    v["s_tag_skip"] = int(m.group(1)) if m and m.group(1) == m.group(2) else None
    m = re.search(r"fmtPos_cur\s*=\s*fmtPos_nextFormatTagClose\s*\+\s*(\d+)\s*;", body)
    v["s_close_skip"] = int(m.group(1)) if m else None
    if re.search(r"\bchar\s+dataSourceTag\s*\[", body) or not re.search(r"literalText\s*=\s*strndup\s*\(\s*fmtPos_cur\s*,\s*lengthToCopy\s*\)", body):
        notes.append("translator(safety): message.c no longer strndup()s the literal / tag")
        v["s_tag_skip"] = None
    act = strip_comments(run.src("src/action/log-syscall-exec.c"))
    act = resolve_locals(act)        # a size hoisted into a local (logMessageBufSize = CFG->log_message_max_length + 1) is substituted back
    m = re.search(r"logMessage\s*=\s*malloc\s*\(\s*\(?\s*CFG->log_message_max_length\s*\+\s*(\d+)\s*\)?\s*\)", act)
    v["s_log_malloc_adj"] = int(m.group(1)) if m else None
    m = re.search(r"snoopy_message_generateFromFormat\s*\(\s*logMessage\s*,\s*\(?\s*CFG->log_message_max_length\s*\+\s*(\d+)\s*\)?\s*,\s*\(?\s*CFG->datasource_message_max_length\s*\+\s*(\d+)\s*\)?\s*,", act)
    v["s_log_size_adj"] = int(m.group(1)) if m else None
    v["s_ds_size_adj"] = int(m.group(2)) if m else None
    for k, ex in [("s_hardmin_log", "SNOOPY_LOG_MESSAGE_MAX_LENGTH_HARDMIN"), ("s_hardmax_log", "SNOOPY_LOG_MESSAGE_MAX_LENGTH_HARDMAX"),
                  ("s_hardmin_ds", "SNOOPY_DATASOURCE_MESSAGE_MAX_LENGTH_HARDMIN"), ("s_hardmax_ds", "SNOOPY_DATASOURCE_MESSAGE_MAX_LENGTH_HARDMAX"),
                  ("s_default_log", "SNOOPY_LOG_MESSAGE_MAX_LENGTH_DEFAULT"), ("s_default_ds", "SNOOPY_DATASOURCE_MESSAGE_MAX_LENGTH_DEFAULT"),
                  ("s_int_max", "INT_MAX"), ("s_llong_max", "LLONG_MAX"), ("s_ident_buf", "SNOOPY_SYSLOG_IDENT_FORMAT_BUF_SIZE"), ("s_path_max", "PATH_MAX"),
                  ("s_sun_path_cap", "sizeof(((struct sockaddr_un*)0)->sun_path)"), ("s_default_chain_len", "sizeof(SNOOPY_FILTER_CHAIN)-1")]:
        ev.append((k, ex))
    # the limits the option parsers are given must be these macros
    cf = strip_comments(run.src("src/configfile.c"))
    for opt, pre in (("datasource_message_max_length", "SNOOPY_DATASOURCE_MESSAGE_MAX_LENGTH"), ("log_message_max_length", "SNOOPY_LOG_MESSAGE_MAX_LENGTH")):
        if not re.search(r"CFG->%s\s*=\s*snoopy_util_parser_strByteLength\s*\(\s*confValString\s*,\s*%s_HARDMIN\s*,\s*%s_HARDMAX\s*,\s*%s_DEFAULT\s*\)" % (opt, pre, pre, pre), cf):
            notes.append("translator(safety): %s is no longer clamped with its HARDMIN/HARDMAX" % opt)
            ev = [(k, None if (k.startswith("s_hard") and (("ds" in k) == opt.startswith("data"))) else ex) for k, ex in ev]

    # ---------------------------------------------------------------- filtering.c
    fil = strip_comments(run.src("src/filtering.c"))
    fb = func_body(fil, "snoopy_filtering_check_chain") or ""
    ev.append(("s_chain_max", _arr(fb, "filterChainCopy")))
    m = re.search(r"strncpy\s*\(\s*filterChainCopy\s*,\s*filterChain\s*,\s*([^;]+?)\)\s*;", fb)
    ev.append(("s_chain_copy_n", m.group(1) if m else None))
    m = re.search(r"filterChainCopy\s*\[([^\]]+)\]\s*=\s*'\\0'\s*;", fb)
    v["s_chain_term"] = bool(m)
    ev.append(("s_chain_term_idx", m.group(1) if m else "0"))
    ev.append(("s_fname_max", _arr(fb, "filterName")))
    ev.append(("s_farg_max", _arr(fb, "filterArg")))
    v["s_fname_copy_exact"] = bool(re.search(r"filterNameSize\s*=\s*fcPos_filterSpecArg\s*-\s*filterSpec\s*;", fb)
                                   and re.search(r"strncpy\s*\(\s*filterName\s*,\s*filterSpec\s*,\s*filterNameSize\s*\)", fb)
                                   and re.search(r"fcPos_filterSpecArg\s*=\s*strstr\s*\(\s*filterSpec\s*,\s*\":\"\s*\)", fb))
    v["s_fname_term"] = bool(re.search(r"filterName\s*\[\s*filterNameSize\s*\]\s*=\s*'\\0'", fb))

    # ---------------------------------------------------------------- util/parser.c
    par = strip_comments(run.src("src/util/parser.c"))
    cb = func_body(par, "snoopy_util_parser_csvToArgList") or ""
    # names of the locals are free: <list> = malloc(sizeof(char*) * (<argc> + N)) with <argc> = <commas> + 1 and <commas> = countChars(argListRaw, ',')
    v["s_csv_extra_slots"] = None
    m = re.search(r"(\w+)\s*=\s*malloc\s*\(\s*sizeof\s*\(\s*char\s*\*\s*\)\s*\*\s*\(\s*(\w+)\s*\+\s*(\d+)\s*\)\s*\)", cb)
    if m:
        lst, argc = m.group(1), m.group(2)
        m2 = re.search(r"\b" + argc + r"\s*=\s*(\w+)\s*\+\s*1\s*;", cb)
        commas = m2.group(1) if m2 else None
        ok_c = (commas and re.search(r"\b" + commas + r"\s*=\s*snoopy_util_string_countChars\s*\(\s*argListRaw\s*,\s*','\s*\)", cb)
                and re.search(r"\*\s*argListParsed\s*=\s*" + lst + r"\s*;", cb)
                # the slot writes: [0], [<idx>] inside the comma loop, [<idx>] for the end marker; <idx> is only set to 0/1 and incremented in the loop
                and re.search(r"\b" + lst + r"\s*\[\s*0\s*\]\s*=\s*argListRaw\s*;", cb)
                and (re.search(r"while\s*\(\s*NULL\s*!=\s*\(\s*(\w+)\s*=\s*strchr\s*\(\s*(\w+)\s*,\s*','\s*\)\s*\)\s*\)\s*\{\s*\*\s*\1\s*=\s*'\\0'\s*;\s*\2\s*=\s*\1\s*\+\s*1\s*;\s*"
                              + lst + r"\s*\[\s*(\w+)\s*\]\s*=\s*\2\s*;\s*\3\s*\+\+\s*;\s*\}", cb)
                     or re.search(r"(\w+)\s*=\s*strchr\s*\(\s*argListRaw\s*,\s*','\s*\)\s*;\s*while\s*\(\s*NULL\s*!=\s*\1\s*\)\s*\{\s*\*\s*\1\s*=\s*'\\0'\s*;\s*"
                                  + lst + r"\s*\[\s*(\w+)\s*\]\s*=\s*\1\s*\+\s*1\s*;\s*\2\s*\+\+\s*;\s*\1\s*=\s*strchr\s*\(\s*\1\s*\+\s*1\s*,\s*','\s*\)\s*;\s*\}", cb)))
        if ok_c:
            v["s_csv_extra_slots"] = int(m.group(3))
    if v["s_csv_extra_slots"] is None:
        notes.append("translator(safety): util/parser.c csvToArgList: allocation / slot writes not recognised")
    bb = func_body(par, "snoopy_util_parser_strByteLength") or ""
    # names of the locals are free; while or for loop over the digits
    ll = re.findall(r"long\s+long\s+(\w+)\s*(?:=\s*(\d+))?\s*;", bb)
    macc = re.search(r"if\s*\(\s*(\w+)\s*<=\s*valMax\s*\)\s*\{\s*\1\s*=\s*\1\s*\*\s*10\s*\+\s*\(\s*\*\s*(\w+)\s*-\s*'0'\s*\)\s*;\s*\}", bb)
    wide = False
    fac = None
    if macc:
        num, cur = macc.group(1), macc.group(2)
        mres = re.search(r"(\w+)\s*=\s*" + num + r"\s*\*\s*(\w+)\s*;", bb)
        if mres:
            res_, fac = mres.group(1), mres.group(2)
            decl = dict(ll)
            loop = (re.search(r"while\s*\(\s*isdigit\s*\(\s*\(unsigned\s+char\)\s*\*\s*" + cur + r"\s*\)\s*\)", bb)
                    or re.search(r"for\s*\([^;]*;\s*isdigit\s*\(\s*\(unsigned\s+char\)\s*\*\s*" + cur + r"\s*\)\s*;\s*" + cur + r"\s*\+\+\s*\)", bb))
            wide = bool(decl.get(num) == "0" and decl.get(fac) == "1" and res_ in decl and loop
                        and re.search(r"return\s*\(int\)\s*" + res_ + r"\s*;", bb)
                        and re.search(r"if\s*\(\s*" + res_ + r"\s*<\s*valMin\s*\)\s*" + res_ + r"\s*=\s*valMin\s*;", bb)
                        and re.search(r"if\s*\(\s*" + res_ + r"\s*>\s*valMax\s*\)\s*" + res_ + r"\s*=\s*valMax\s*;", bb))
    v["s_bytelen_wide"] = wide
    if not wide:
        notes.append("translator(safety): util/parser.c strByteLength: wide saturating accumulation not recognised")
    fv = fac or "factor"
    m = re.search(r"'k'[^{]*\{\s*" + fv + r"\s*=\s*([^;]+);", bb)
    ev.append(("s_factor_k", m.group(1) if m else None))
    m = re.search(r"'m'[^{]*\{\s*" + fv + r"\s*=\s*([^;]+);", bb)
    ev.append(("s_factor_m", m.group(1) if m else None))

    # ---------------------------------------------------------------- util/syslog.c, configfile.c
    sl = strip_comments(run.src("src/util/syslog.c"))

    def prefix_info(fbody, var):
        m = re.search(r"if\s*\(\s*0\s*==\s*strncmp\s*\(\s*" + var + r"\s*,\s*" + STR + r"\s*,\s*(\d+)\s*\)\s*\)\s*\{\s*\w+\s*=\s*&\s*" + var + r"\s*\[\s*(\d+)\s*\]\s*;", fbody)
        if m:
            return True, c_unescape(m.group(1)), int(m.group(2)), int(m.group(3))
        m = re.search(r"if\s*\(\s*'_'\s*==\s*" + var + r"\s*\[\s*(\d+)\s*\]\s*\)\s*\{\s*\w+\s*=\s*&\s*" + var + r"\s*\[\s*(\d+)\s*\]\s*;", fbody)
        if m:
            return False, b"LOG_", int(m.group(2)), int(m.group(2))
        # the skip may live in a file-local helper:  <adj> = helper(<var>);  helper(p) { if (0 == strncmp(p, LIT, N)) { return &p[K]; } return p; }
        mh = re.search(r"\w+\s*=\s*(\w+)\s*\(\s*" + var + r"\s*\)\s*;", fbody)
        if mh and re.search(r"^\s*static\s+[\w\s\*]+?\b" + mh.group(1) + r"\s*\(", sl, re.M):
            hdr = re.search(r"\b" + mh.group(1) + r"\s*\(\s*(?:const\s+)?char\s*(?:const\s*)?\*\s*(?:const\s+)?(\w+)\s*\)\s*\{", sl)
            hb = func_body(sl, mh.group(1)) or ""
            if hdr:
                p_ = hdr.group(1)
                m = re.fullmatch(r"\s*if\s*\(\s*0\s*==\s*strncmp\s*\(\s*" + p_ + r"\s*,\s*" + STR + r"\s*,\s*(\d+)\s*\)\s*\)\s*\{\s*return\s*&\s*" + p_ + r"\s*\[\s*(\d+)\s*\]\s*;\s*\}\s*return\s+" + p_ + r"\s*;\s*", hb)
                if m:
                    return True, c_unescape(m.group(1)), int(m.group(2)), int(m.group(3))
        return None
    fi = prefix_info(func_body(sl, "snoopy_util_syslog_convertFacilityToInt") or "", "facilityStr")
    li = prefix_info(func_body(sl, "snoopy_util_syslog_convertLevelToInt") or "", "levelStr")
    if fi and li and fi[1:] == li[1:]:
        v["s_fac_guarded"], v["s_log_prefix"], v["s_log_cmp_n"], v["s_log_skip"] = fi
        v["s_lvl_guarded"] = li[0]
    elif fi and li:
        v["s_fac_guarded"], v["s_log_prefix"], v["s_log_cmp_n"], v["s_log_skip"] = fi[0] and li[0] and False, fi[1], min(fi[2], li[2]), max(fi[3], li[3])
        v["s_lvl_guarded"] = False
        notes.append("translator(safety): the two syslog lookups strip the prefix differently")
    rp = func_body(cf, "snoopy_configfile_syslog_value_remove_prefix") or ""
    m = re.search(r"if\s*\(\s*0\s*==\s*strncmp\s*\(\s*confVal\s*,\s*" + STR + r"\s*,\s*(\d+)\s*\)\s*\)\s*\{\s*return\s+confVal\s*\+\s*(\d+)\s*;", rp)
    if m:
        v["s_cfg_guarded"], v["s_cfg_prefix"], v["s_cfg_cmp_n"], v["s_cfg_skip"] = True, c_unescape(m.group(1)), int(m.group(2)), int(m.group(3))
    elif "snoopy_configfile_syslog_value_remove_prefix" not in cf and fi:
        # the helper is gone (the lookup strips the prefix): the fields are unused by the model (s_cfg_strips = false)
        v["s_cfg_guarded"], v["s_cfg_prefix"], v["s_cfg_cmp_n"], v["s_cfg_skip"] = True, fi[1], fi[2], fi[3]
    cl = func_body(cf, "snoopy_configfile_syslog_value_cleanup") or ""
    v["s_cfg_strips"] = bool(re.search(r"snoopy_configfile_syslog_value_remove_prefix\s*\(", cl))
    if not re.search(r"snoopy_util_string_toUpper\s*\(\s*confVal\s*\)", cl):
        notes.append("translator(safety): syslog_value_cleanup not recognised")
        v["s_cfg_guarded"] = None
    ob = func_body(cf, "snoopy_configfile_parseValue_output") or ""
    v["s_out_split_strchr"] = bool(re.search(r"colonPtr\s*=\s*strchr\s*\(\s*confVal\s*,\s*':'\s*\)", ob) and re.search(r"\*colonPtr\s*=\s*'\\0'\s*;\s*(?:outputName\s*=\s*confVal\s*;\s*)?outputArg\s*=\s*colonPtr\s*\+\s*1\s*;", ob)
                                   and re.search(r"confVal\s*=\s*strdup\s*\(\s*confValString\s*\)", ob) and "strtok_r" not in ob)

    # ---------------------------------------------------------------- ini.c as compiled
    ini = strip_comments(run.src("lib/inih/src/ini.c"))
    ih = run.src("lib/inih/src/ini.h")
    inidefs = _local_defs(ini)
    ib = func_body(ini, "ini_parse_stream") or ""
    iev = []
    iev.append(("s_ini_use_stack", "INI_USE_STACK"))
    iev.append(("s_ini_bom", "INI_ALLOW_BOM"))
    iev.append(("s_ini_multiline", "INI_ALLOW_MULTILINE"))
    iev.append(("s_ini_inline_comments", "INI_ALLOW_INLINE_COMMENTS"))
    m = re.search(r"#if\s+INI_USE_STACK\s+char\s+line\s*\[([^\]]+)\]\s*;\s*size_t\s+max_line\s*=\s*([^;]+);", ib)
    iev.append(("s_ini_line_cap", m.group(1) if m else None))
    iev.append(("s_ini_max_line", m.group(2) if m else None))
    if not re.search(r"while\s*\(\s*reader\s*\(\s*line\s*,\s*\(int\)\s*max_line\s*,\s*stream\s*\)\s*!=\s*NULL\s*\)", ib):
        iev[-1] = ("s_ini_max_line", None)
    iev.append(("s_ini_section_cap", _arr(ib, "section")))
    iev.append(("s_ini_name_cap", _arr(ib, "prev_name")))
    m = re.search(r"strncpy0\s*\(\s*section\s*,\s*start\s*\+\s*1\s*,\s*([^;]+?)\)\s*;", ib)
    sec_copy = m.group(1) if m else None
    m = re.search(r"strncpy0\s*\(\s*prev_name\s*,\s*name\s*,\s*([^;]+?)\)\s*;", ib)
    name_copy = m.group(1) if m else None
    # sizeof(x) of the local arrays -> their declared sizes
    def unsizeof(ex):
        if ex is None:
            return None
        ex = re.sub(r"sizeof\s*\(\s*section\s*\)", "(" + (_arr(ib, "section") or "0") + ")", ex)
        ex = re.sub(r"sizeof\s*\(\s*prev_name\s*\)", "(" + (_arr(ib, "prev_name") or "0") + ")", ex)
        return ex
    iev.append(("s_ini_section_copy", unsizeof(sec_copy)))
    iev.append(("s_ini_name_copy", unsizeof(name_copy)))
    s0 = func_body(ini, "strncpy0") or ""
    v["s_ini_strncpy0_term"] = bool(re.search(r"for\s*\(\s*i\s*=\s*0\s*;\s*i\s*<\s*size\s*-\s*1\s*&&\s*src\s*\[\s*i\s*\]\s*;\s*i\+\+\s*\)\s*dest\s*\[\s*i\s*\]\s*=\s*src\s*\[\s*i\s*\]\s*;\s*dest\s*\[\s*i\s*\]\s*=\s*'\\0'\s*;", s0))
    ir = _eval_many(run, iev, includes=("stddef.h", "lib/inih/src/ini.h"), extra_defs=inidefs)
    for k in ("s_ini_use_stack", "s_ini_bom", "s_ini_multiline", "s_ini_inline_comments"):
        v[k] = bool(ir.get(k)) if ir.get(k) is not None else None
    for k in ("s_ini_line_cap", "s_ini_max_line", "s_ini_section_cap", "s_ini_name_cap", "s_ini_section_copy", "s_ini_name_copy"):
        v[k] = ir.get(k)

    # ---------------------------------------------------------------- env_all.c
    ea = strip_comments(run.src("src/datasource/env_all.c"))
    eb = func_body(ea, "snoopy_datasource_env_all") or ""
    m = re.search(r"if\s*\(\s*\(\s*(?:i\s*>\s*1|\w+\s*!=\s*environ|\w+\s*>\s*environ|0\s*!=\s*resultSize|resultSize\s*>\s*0)\s*\)\s*&&\s*\(\s*remResultSize\s*>=\s*(\d+)\s*\)", eb)
    v["s_env_comma_min"] = int(m.group(1)) if m else None
    m = re.search(r"if\s*\(\s*\(\s*strlen\s*\(\s*envItem\s*\)\s*\+\s*(\d+)\s*\+\s*(\d+)\s*\)\s*<\s*remResultSize\s*\)", eb)
    v["s_env_whole_slack"] = (int(m.group(1)) + int(m.group(2))) if m else None
    m = re.search(r"strSizeToCopy\s*=\s*remResultSize\s*-\s*(\d+)\s*;", eb)
    v["s_env_trunc_sub"] = int(m.group(1)) if m else None
    m = re.search(r"strSizeToCopy\s*=\s*(\d+)\s*;[^;]*snprintf\s*\(\s*&resultBuf\s*\[\s*resultSize\s*\]\s*,\s*strSizeToCopy\s*,\s*" + STR + r"\s*\)", eb)
    v["s_env_dots_size"] = int(m.group(1)) if m else None
    v["s_env_dots"] = c_unescape(m.group(2)) if m else None
    v["s_env_null_guard"] = bool(re.search(r"resultBuf\s*\[\s*0\s*\]\s*=\s*'\\0'\s*;\s*if\s*\(\s*NULL\s*==\s*environ\s*\)\s*\{\s*return\s+0\s*;", eb))
    if not (re.search(r"size_t\s+remResultSize\s*=\s*resultBufSize\s*-\s*resultSize\s*;", eb)
            and re.search(r"snprintf\s*\(\s*&resultBuf\s*\[\s*resultSize\s*\]\s*,\s*remResultSize\s*,\s*\"%s\"\s*,\s*envItem\s*\)", eb)
            and re.search(r"resultSize\s*\+=\s*strSizeToCopy\s*-\s*1\s*;", eb)):
        notes.append("translator(safety): env_all.c remaining-size arithmetic not recognised")
        v["s_env_trunc_sub"] = None

    # ---------------------------------------------------------------- login.c, datetime.c
    lg = strip_comments(run.src("src/datasource/login.c"))
    lb = func_body(lg, "snoopy_datasource_login") or ""
    ldefs = _local_defs(lg)
    # the bounds may be constant locals initialised from the macros, or the macros themselves: evaluate the expressions at their uses
    for mloc in re.finditer(r"^\s*(?:const\s+)?int\s+(?:const\s+)?(\w+)\s*=\s*([A-Za-z_0-9 +\-()]+);", lb, re.M):
        if len(re.findall(r"\b%s\b\s*(?:=(?!=)|\+\+|--|\+=|-=)" % mloc.group(1), lb)) == 1:
            ldefs += "#define %s (%s)\n" % (mloc.group(1), mloc.group(2))
    mg = re.search(r"getlogin_r\s*\(\s*login\s*,\s*([^;{}]+?)\)\s*\)", lb)
    mc = re.search(r"strncpy\s*\(\s*login\s*,\s*loginptr\s*,\s*([^;{}]+?)\)\s*;", lb)
    mt = re.search(r"if\s*\(\s*\(int\)\s*strlen\s*\(\s*loginptr\s*\)\s*>\s*([^{};]+?)\)\s*\{\s*login\s*\[([^\]]+)\]\s*=\s*'\\0'", lb)
    lev = [("s_login_cap", _arr(lb, "login")), ("s_login_with_nul", mg.group(1) if mg else None), ("s_login_without_nul", mc.group(1) if mc else None),
           ("l_cmp", mt.group(1) if mt else None), ("l_idx", mt.group(2) if mt else None)]
    ok_l = (re.search(r"char\s+login\s*\[[^\]]+\]\s*=\s*\"\"\s*;", lb)
            and re.search(r"return\s+snprintf\s*\(\s*resultBuf\s*,\s*resultBufSize\s*,\s*\"%s\"\s*,\s*login\s*\)", lb))
    m = re.search(r"strcpy\s*\(\s*login\s*,\s*" + STR + r"\s*\)", lb)
    v["s_login_unknown"] = c_unescape(m.group(1)) if m else None
    lr = _eval_many(run, lev, extra_defs=ldefs)
    if not (lr.get("s_login_without_nul") is not None and lr.get("s_login_without_nul") == lr.get("l_cmp") == lr.get("l_idx")):
        ok_l = False
    if not ok_l:
        notes.append("translator(safety): login.c: buffer initialiser, copy bound, terminator test or final snprintf not recognised")
    for k in ("s_login_cap", "s_login_with_nul", "s_login_without_nul"):
        v[k] = lr.get(k) if ok_l else None
    dt = strip_comments(run.src("src/datasource/datetime.c"))
    db = func_body(dt, "snoopy_datasource_datetime") or ""
    ddefs = _local_defs(run.src("src/datasource/datetime.h"))
    m = re.search(r"strftime\s*\(\s*timeBuffer\s*,\s*([^,]+),", db)
    # every strftime-like call on timeBuffer (the thread-safe build goes through snoopy_tsrm_strftime) must pass the same limit
    sizes = re.findall(r"strftime\s*\(\s*timeBuffer\s*,\s*([^,]+),", db)
    if _arr(db, "timeBuffer"):
        sizes = [re.sub(r"sizeof\s*\(\s*timeBuffer\s*\)|sizeof\s+timeBuffer\b", "(" + _arr(db, "timeBuffer") + ")", x) for x in sizes]     # sizeof of the local array = its declared size
    dr = _eval_many(run, [("s_dt_cap", _arr(db, "timeBuffer"))] + [("s_dt_size%d" % i, x) for i, x in enumerate(sizes)], extra_defs=ddefs)
    vals = set(dr.get("s_dt_size%d" % i) for i in range(len(sizes)))
    dr["s_dt_size"] = vals.pop() if len(vals) == 1 else None
    v["s_dt_cap"], v["s_dt_size"] = dr.get("s_dt_cap"), dr.get("s_dt_size")
    if not re.search(r"return\s+snprintf\s*\(\s*resultBuf\s*,\s*resultBufSize\s*,\s*\"%s\"\s*,\s*timeBuffer\s*\)", db):
        v["s_dt_size"] = None

    # ---------------------------------------------------------------- exclude_spawns_of.c
    es = strip_comments(run.src("src/filter/exclude_spawns_of.c"))
    fa = _reach(es, "find_ancestor_in_list")        # the read block may have been moved into a file-local helper
    edefs = _local_defs(es)
    m1 = re.search(r"fread\s*\(\s*st_buf\s*,\s*1\s*,\s*([^,]+),\s*statf\s*\)", fa)
    m2 = re.search(r"len\s*>=\s*([A-Za-z_0-9]+)\s*\)", fa)
    mrc = re.search(r"(\w+)\s*=\s*\(int\)\s*fread\s*\(\s*st_buf\s*,", fa)
    rcv = mrc.group(1) if mrc else "rc"
    m3 = re.search(r"if\s*\(\s*" + rcv + r"\s*<\s*([A-Za-z_0-9]+)\s*\)", fa)
    m4 = re.search(r"snprintf\s*\(\s*stat_path\s*,\s*([^,]+),", fa)
    sev = [("s_st_buf", _arr(fa, "st_buf")), ("s_st_fread_n", m1.group(1) if m1 else None), ("s_st_comm", _arr(fa, "st_comm_buf")),
           ("s_st_comm_limit", m2.group(1) if m2 else None), ("s_st_size_min", m3.group(1) if m3 else None), ("s_st_path_arr", _arr(fa, "stat_path")),
           ("s_st_path", m4.group(1) if m4 else None)]
    sr = _eval_many(run, sev, extra_defs=edefs)
    ok_s = (re.search(r"st_buf\s*\[\s*" + rcv + r"\s*\]\s*=\s*'\\0'", fa) and re.search(r"len\s*=\s*right\s*-\s*left\s*-\s*1\s*;", fa)
            and re.search(r"memcpy\s*\(\s*st_comm_buf\s*,\s*left\s*\+\s*1\s*,\s*len\s*\)\s*;\s*st_comm_buf\s*\[\s*len\s*\]\s*=\s*'\\0'", fa)
            and re.search(r"if\s*\(\s*(?:len\s*<=\s*0|right\s*<\s*left)\s*\|\|\s*len\s*>=", fa))
    v["s_st_empty_ok"] = bool(re.search(r"if\s*\(\s*right\s*<\s*left\s*\|\|\s*len\s*>=", fa))
    for k in ("s_st_buf", "s_st_fread_n", "s_st_comm", "s_st_comm_limit", "s_st_size_min", "s_st_path"):
        v[k] = sr.get(k) if ok_s else None
    if sr.get("s_st_path") is not None and sr.get("s_st_path_arr") is not None and sr["s_st_path"] > sr["s_st_path_arr"]:
        notes.append("translator(safety): snprintf size of stat_path exceeds the array")
        v["s_st_path"] = None

    # ---------------------------------------------------------------- error.c
    er = strip_comments(run.src("src/error.c"))
    hb = func_body(er, "snoopy_error_handler") or ""
    erdefs = _local_defs(er)
    m = re.search(r"snprintf\s*\(\s*errorMsgFormatted\s*,\s*([^,]+),", hb)
    rr = _eval_many(run, [("s_err_buf", _arr(hb, "errorMsgFormatted")), ("s_err_snprintf", m.group(1) if m else None)], extra_defs=erdefs)
    v["s_err_buf"] = rr.get("s_err_buf") if rr.get("s_err_buf") is not None and rr.get("s_err_snprintf") is not None and rr["s_err_snprintf"] <= rr["s_err_buf"] else None
    v["s_err_guard"] = bool(re.search(r"CFG->error_logging_enabled\s*=\s*SNOOPY_FALSE\s*;\s*snoopy_action_log_message_dispatch\s*\(\s*errorMsg\s*\)\s*;\s*CFG->error_logging_enabled\s*=\s*SNOOPY_TRUE\s*;", hb))

    # ---------------------------------------------------------------- outputs
    dv = strip_comments(run.src("src/output/devlogoutput.c"))
    m = re.search(r"logMessageWithPrefixSize\s*=\s*strlen\s*\(\s*logMessage\s*\)\s*\+\s*SNOOPY_SYSLOG_IDENT_FORMAT_BUF_SIZE\s*\+\s*(\d+)\s*;", dv)
    v["s_devlog_extra"] = int(m.group(1)) if m and re.search(r"snprintf\s*\(\s*logMessageWithPrefix\s*,\s*logMessageWithPrefixSize\s*,", dv) and re.search(r"malloc\s*\(\s*logMessageWithPrefixSize\s*\)", dv) else None
    so = strip_comments(run.src("src/output/socketoutput.c"))
    sodefs = _local_defs(so)
    m = re.search(r"strncpy\s*\(\s*remote\.sun_path\s*,\s*arg\s*,\s*([^)]+)\)", so)
    m2 = re.search(r"if\s*\(\s*strlen\s*\(\s*arg\s*\)\s*>\s*([A-Za-z_0-9]+)\s*\)\s*remote\.sun_path\s*\[\s*([A-Za-z_0-9]+)\s*\]\s*=\s*'\\0'", so)
    m3 = re.search(r"strnlen\s*\(\s*remote\.sun_path\s*,\s*([A-Za-z_0-9]+)\s*\)", so)
    sor = _eval_many(run, [("a", m.group(1) if m else None), ("b", m2.group(1) if m2 else None), ("c", m2.group(2) if m2 else None), ("d", m3.group(1) if m3 else None)], extra_defs=sodefs)
    vals = [sor.get(k) for k in "abcd"]
    v["s_sock_path_size"] = vals[0] if None not in vals and len(set(vals)) == 1 else None

    # ---------------------------------------------------------------- util/file.c
    fh = _local_defs(run.src("src/util/file-snoopy.h"))
    fc = strip_comments(run.src("src/util/file.c"))
    ok_f = (re.search(r"contentPtr\s*=\s*malloc\s*\(\s*SNOOPY_UTIL_FILE__SMALL_FILE_MAX_SIZE\s*\)", fc)
            and re.search(r"while\s*\(\s*bytesReadTotal\s*<\s*SNOOPY_UTIL_FILE__SMALL_FILE_MAX_SIZE\s*\)", fc)
            and re.search(r"fread\s*\(\s*contentPtr\s*\+\s*bytesReadTotal\s*,\s*1\s*,\s*SNOOPY_UTIL_FILE__SMALL_FILE_FREAD_SIZE\s*,", fc)
            and re.search(r"bytesReadNow\s*<\s*SNOOPY_UTIL_FILE__SMALL_FILE_FREAD_SIZE", fc))
    fr = _eval_many(run, [("s_file_max", "SNOOPY_UTIL_FILE__SMALL_FILE_MAX_SIZE"), ("s_file_fread", "SNOOPY_UTIL_FILE__SMALL_FILE_FREAD_SIZE"), ("s_file_err_max", "SNOOPY_UTIL_FILE__ERROR_MSG_MAX_SIZE")], extra_defs=fh)
    for k in ("s_file_max", "s_file_fread", "s_file_err_max"):
        v[k] = fr.get(k) if ok_f else None

    # ---------------------------------------------------------------- cgroup.c, rpname.c
    cg = strip_comments(run.src("src/datasource/cgroup.c"))
    cgb = func_body(cg, "snoopy_datasource_cgroup") or ""
    m = re.search(r"snprintf\s*\(\s*procPidCgroupFilePath\s*,\s*([^,]+),", cgb)
    cr = _eval_many(run, [("arr", _arr(cgb, "procPidCgroupFilePath")), ("n", m.group(1) if m else None)], extra_defs=_local_defs(cg))
    v["s_cg_path"] = cr.get("n") if cr.get("n") is not None and cr.get("arr") is not None and cr["n"] <= cr["arr"] else None
    rp = strip_comments(run.src("src/datasource/rpname.c"))
    rpb = func_body(rp, "read_proc_property") or ""
    rdefs = _local_defs(rp)
    m0 = re.search(r"snprintf\s*\(\s*pid_file\s*,\s*([^,]+),", rpb)
    m1 = re.search(r"if\s*\(\s*vLen\s*>\s*([A-Za-z_0-9]+)\s*\)\s*\{\s*strncpy\s*\(\s*returnValue\s*,\s*v\s*,\s*([^;]+?)\)\s*;\s*returnValue\s*\[([^\]]+)\]\s*=\s*0\s*;", rpb)
    m2 = re.search(r"\}\s*else\s*\{\s*strncpy\s*\(\s*returnValue\s*,\s*v\s*,\s*([^;]+?)\)\s*;", rpb)
    rr = _eval_many(run, [("path_arr", _arr(rpb, "pid_file")), ("path_n", m0.group(1) if m0 else None), ("ret_cap", _arr(rpb, "returnValue")),
                          ("cmp", m1.group(1) if m1 else None), ("copy_long", m1.group(2) if m1 else None), ("term", m1.group(3) if m1 else None),
                          ("copy_short", m2.group(1) if m2 else None)], includes=("limits.h", "stddef.h"), extra_defs=rdefs)
    ok_r = (re.search(r"char\s+returnValue\s*\[[^\]]+\]\s*=\s*\"\"\s*;", rpb) and re.search(r"v\[\s*vLen\s*-\s*1\s*\]\s*=\s*0\s*;", rpb)
            and re.search(r"return\s+strdup\s*\(\s*returnValue\s*\)", rpb))
    vals = [rr.get(k) for k in ("cmp", "copy_long", "term", "copy_short")]
    v["s_rp_path"] = rr.get("path_n") if rr.get("path_n") is not None and rr.get("path_arr") is not None and rr["path_n"] <= rr["path_arr"] else None
    v["s_rp_val_max"] = vals[0] if ok_r and None not in vals and len(set(vals)) == 1 else None
    v["s_rp_ret_cap"] = rr.get("ret_cap") if ok_r else None

    # ---------------------------------------------------------------- evaluate the global-context expressions
    gr = _eval_many(run, ev, extra_defs="")
    for k, ex in ev:
        if k not in v:
            v[k] = gr.get(k)
    if not v.get("s_chain_term"):
        v["s_chain_term_idx"] = 0

    order = ["s_append_strict", "s_ds_buf_adj", "s_ds_arg_max", "s_ds_pre_nul", "s_tag_skip", "s_close_skip", "s_log_malloc_adj", "s_log_size_adj", "s_ds_size_adj",
             "s_hardmin_log", "s_hardmax_log", "s_hardmin_ds", "s_hardmax_ds", "s_default_log", "s_default_ds",
             "s_chain_max", "s_chain_copy_n", "s_chain_term_idx", "s_chain_term", "s_fname_max", "s_farg_max", "s_fname_copy_exact", "s_fname_term", "s_default_chain_len",
             "s_csv_extra_slots", "s_bytelen_wide", "s_int_max", "s_llong_max", "s_factor_k", "s_factor_m",
             "s_log_prefix", "s_log_cmp_n", "s_log_skip", "s_fac_guarded", "s_lvl_guarded", "s_cfg_prefix", "s_cfg_cmp_n", "s_cfg_skip", "s_cfg_guarded", "s_out_split_strchr",
             "s_ini_line_cap", "s_ini_max_line", "s_ini_use_stack", "s_ini_section_cap", "s_ini_name_cap", "s_ini_section_copy", "s_ini_name_copy",
             "s_ini_bom", "s_ini_multiline", "s_ini_inline_comments", "s_ini_strncpy0_term",
             "s_env_comma_min", "s_env_whole_slack", "s_env_trunc_sub", "s_env_dots_size", "s_env_dots", "s_env_null_guard",
             "s_login_cap", "s_login_with_nul", "s_login_without_nul", "s_login_unknown", "s_dt_cap", "s_dt_size",
             "s_st_buf", "s_st_fread_n", "s_st_comm", "s_st_comm_limit", "s_st_size_min", "s_st_path",
             "s_err_buf", "s_err_guard", "s_ident_buf", "s_path_max", "s_devlog_extra", "s_sock_path_size", "s_sun_path_cap",
             "s_file_max", "s_file_fread", "s_file_err_max", "s_cg_path", "s_rp_path", "s_rp_val_max", "s_rp_ret_cap", "s_cfg_strips", "s_st_empty_ok"]
    boolk = {"s_append_strict", "s_ds_pre_nul", "s_chain_term", "s_fname_copy_exact", "s_fname_term", "s_bytelen_wide", "s_fac_guarded", "s_lvl_guarded", "s_cfg_guarded",
             "s_out_split_strchr", "s_cfg_strips", "s_st_empty_ok", "s_ini_use_stack", "s_ini_bom", "s_ini_multiline", "s_ini_inline_comments", "s_ini_strncpy0_term", "s_env_null_guard", "s_err_guard"}
    bytek = {"s_log_prefix", "s_cfg_prefix", "s_env_dots", "s_login_unknown"}
    bad = {}
    for k in order:
        bad[k] = False if k in boolk else (b"\x00" if k in bytek else 0)
    # 'bad' numeric values that cannot satisfy consts_ok: 0 fails the ">= 1" tests for sizes; for upper-bounded fields use a huge value
    for k in ("s_ds_buf_adj", "s_chain_copy_n", "s_log_skip", "s_cfg_skip", "s_ini_max_line", "s_ini_section_copy", "s_ini_name_copy", "s_st_fread_n", "s_st_comm_limit",
              "s_sock_path_size", "s_login_with_nul", "s_login_without_nul", "s_dt_size", "s_default_chain_len", "s_hardmax_log", "s_hardmax_ds",
              "s_env_trunc_sub", "s_log_malloc_adj", "s_factor_m", "s_rp_val_max"):
        bad[k] = 1 << 62
    for k in list(v):
        if k in boolk and v[k] is None:
            v[k] = None
    js, tsv = emit(run, "safety", "Safety", "safety_consts", "From Snoopy Require Import Lib.CStr Safety.Consts.", v, order, bad)
    write_sidecars(run, "safety", js, tsv)
    run.consts["safety"] = js
    return js


# ------------------------------------------------------------------------------------ syntactic check of the unmodelled data sources
BOUNDED = [
    r"snprintf\s*\(\s*resultBuf\s*,\s*resultBufSize\s*,",
    r"gethostname\s*\(\s*resultBuf\s*,\s*resultBufSize\s*\)",
    r"inet_ntop\s*\([^;]*,\s*resultBuf\s*,\s*(?:\(socklen_t\)\s*)?resultBufSize\s*\)",
    r"resultBuf\s*\[\s*0\s*\]\s*=",
    r"resultBuf\s*\[\s*resultBufSize\s*-\s*1\s*\]\s*=",
    r"strlen\s*\(\s*resultBuf\s*\)",
]


def scan_datasources(run, modelled=("cmdline.c", "env_all.c")):
    """Returns (report, flagged): report = {file: {"uses": n, "bounded": n}}, flagged = [(file, text)].
    Every occurrence of resultBuf in a data source (and in the helpers that receive it) must be part of a
    bounded form; helper calls that pass (resultBuf, resultBufSize) on are followed into the helper."""
    import glob
    report, flagged = {}, []
    files = sorted(glob.glob(os.path.join(run.tree, "src/datasource/*.c")))
    for f in files:
        name = os.path.basename(f)
        src = strip_comments(open(f, encoding="utf-8", errors="replace").read())
        # drop the parameter lists (declarations of resultBuf)
        src = re.sub(r"__attribute__\s*\(\(\s*unused\s*\)\)", "", src)
        body = re.sub(r"\(\s*char\s*\*\s*(?:const\s+)?resultBuf\s*,\s*size_t\s+resultBufSize[^)]*\)", "()", src)
        body = re.sub(r"char\s*\*\s*(?:const\s+)?resultBuf\s*,\s*size_t\s+resultBufSize", "", body)
        uses = [m.start() for m in re.finditer(r"\bresultBuf\b", body)]
        covered = set()
        for pat in BOUNDED + [r"\b[A-Za-z_0-9]+\s*\((?:[^;()]|\([^()]*\))*\bresultBuf\s*,\s*resultBufSize\s*(?:,[^;]*)?\)"]:
            for m in re.finditer(pat, body):
                for u in uses:
                    if m.start() <= u < m.end():
                        covered.add(u)
        bad = [u for u in uses if u not in covered]
        report[name] = {"uses": len(uses), "bounded": len(uses) - len(bad), "modelled": name in modelled}
        if name in modelled:
            continue
        for u in bad:
            ls = body.rfind("\n", 0, u) + 1
            le = body.find("\n", u)
            flagged.append((name, body[ls:le].strip()))
    return report, flagged
