"""T1 translator for src/filter/exclude_spawns_of.c (C15): buffer sizes, the fread length, the length window,
the two format strings, the delimiter, the parentheses and which search finds each, the start pid query
(getppid vs getpid), the loop condition, the comparison and the verdict mapping.

Writes <scratch>/gen/Gen_Spawns.v (record spawns_consts of Spawns/Model.v), consts_spawns.json/.tsv.
Anything not recognised is rendered as a value that makes spawns_consts_ok false, with a note.
"""
import json, os, re
from .translate import strip_comments, c_unescape, cpp_value, STR, write_sidecars
from .core import coq_bytes, hexs
from .cshape import same_shape

SRC = "src/filter/exclude_spawns_of.c"

ORDER = ["sp_sep", "sp_strtok_delim_is_sep", "sp_comm_max", "sp_buf_size", "sp_read_adj", "sp_size_min", "sp_path_max",
         "sp_path_fmt", "sp_scan_fmt", "sp_lparen", "sp_rparen", "sp_left_first", "sp_right_last", "sp_reject_empty",
         "sp_start_parent", "sp_loop_while_nonzero", "sp_cmp_exact", "sp_drop_iff_found", "sp_pass", "sp_drop"]
KIND = {"sp_sep": "byte", "sp_lparen": "byte", "sp_rparen": "byte", "sp_path_fmt": "bytes", "sp_scan_fmt": "bytes",
        "sp_comm_max": "N", "sp_buf_size": "N", "sp_read_adj": "N", "sp_size_min": "N", "sp_path_max": "N", "sp_pass": "Z", "sp_drop": "Z"}
# values that make spawns_consts_ok false
BAD = {"sp_sep": 0, "sp_lparen": 0, "sp_rparen": 0, "sp_path_fmt": b"", "sp_scan_fmt": b"", "sp_comm_max": 0, "sp_buf_size": 0,
       "sp_read_adj": 0, "sp_size_min": 999, "sp_path_max": 0, "sp_pass": 0, "sp_drop": 0,
       "sp_strtok_delim_is_sep": False, "sp_left_first": False, "sp_right_last": False, "sp_reject_empty": True,
       "sp_start_parent": False, "sp_loop_while_nonzero": False, "sp_cmp_exact": False, "sp_drop_iff_found": False}

# the modelled shape of the filter function (compared by symbolic execution, vlib/cshape.py: any rewrite with the same set of
# paths - inverted guard, single exit with a result variable, if/else instead of ?:, merged declarations - is the same shape)
REFERENCE_FILTER_FN = """
int snoopy_filter_exclude_spawns_of (char const * const arg)
{
    char  *argDup;
    char **losp;
    int is_ancestor_in_list = 0;
    argDup = strdup(arg);
    losp = string_to_token_array(argDup);
    if (losp == NULL) {
        free(argDup);
        return SNOOPY_FILTER_PASS;
    }
    is_ancestor_in_list = find_ancestor_in_list(losp);
    free(losp);
    free(argDup);
    return (is_ancestor_in_list == 1) ? SNOOPY_FILTER_DROP : SNOOPY_FILTER_PASS;
}
"""

# what the translator looks for, per field (quoted in the diagnosis when it is not found)
EXPECT = {
 "sp_sep": "#define PROGLISTSEP '<char>'",
 "sp_comm_max": "size_t len; len = right - left - 1; if ([len <= 0 ||] [right < left ||] len >= <N>) { return -1; } with <N> <= sizeof st_comm_buf; memcpy(st_comm_buf, left + 1, len); st_comm_buf[len] = '\\0';",
 "sp_buf_size": "char st_buf[<N>]; in find_ancestor_in_list",
 "sp_read_adj": "rc = (int) fread(st_buf, 1, <N>, statf); st_buf[rc] = '\\0'; (inline or in a static helper that hands rc back)",
 "sp_size_min": "if (rc < <N>) { return -1; }",
 "sp_path_max": "char stat_path[<N>]; snprintf(stat_path, <M>, \"/proc/%d/stat\", ppid) with <M> <= <N>",
 "sp_path_fmt": "snprintf(stat_path, ..., \"<format>\", ppid); statf = fopen(stat_path, \"r\"); if (statf == NULL) { return -1; }",
 "sp_scan_fmt": "pid_t ppid; rc = sscanf(right + 1, \"<format>\", &st_state, &ppid); if (rc != 2) { return -1; }",
 "sp_lparen": "left = strchr(st_buf, '(');", "sp_rparen": "right = strrchr(st_buf, ')');",
 "sp_left_first": "left = strchr(st_buf, '('); ... if (left == NULL || right == NULL) { return -1; }",
 "sp_right_last": "right = strrchr(st_buf, ')');",
 "sp_reject_empty": "if ([right < left ||] len >= ST_COMM_SIZE_MAX) { return -1; }  (without a lower bound on len)",
 "sp_start_parent": "ppid = getppid();",
 "sp_pass": "SNOOPY_FILTER_PASS in snoopy.h", "sp_drop": "SNOOPY_FILTER_DROP in snoopy.h",
}


def char_lit(txt):
    """'x' or '\\n' -> int, else None"""
    m = re.fullmatch(r"'((?:\\.|[^'\\])+)'", txt.strip())
    if not m:
        return None
    b = c_unescape(m.group(1))
    return b[0] if len(b) == 1 else None


def _match_brace(txt, i):
    """txt[i] == '{' -> index just behind the matching '}' (string/char literals skipped)"""
    depth, j = 0, i
    while j < len(txt):
        ch = txt[j]
        if ch in "\"'":
            q = ch
            j += 1
            while j < len(txt) and txt[j] != q:
                j += 2 if txt[j] == "\\" else 1
        elif ch == "{":
            depth += 1
        elif ch == "}":
            depth -= 1
            if depth == 0:
                return j + 1
        j += 1
    return None


def func_body(src, name):
    """body of the DEFINITION of `name` (a line that starts with the return type), never a call site such as `if (name(x)) {`"""
    m = re.search(r"^[ \t]*[A-Za-z_][\w \t\*]*?\b" + re.escape(name) + r"\s*\([^;{()]*\)\s*\{", src, re.M)
    if not m:
        return None
    end = _match_brace(src, m.end() - 1)
    return src[m.end():end - 1] if end else None


def loops_to_while(body):
    """`for (init; cond; step) { body }` without `continue` in the body is rewritten to `init; while (cond) { body step; }`
    (the definition of the for statement), so that a for<->while clean-up leaves the recognised text unchanged."""
    out = body
    for _ in range(16):
        m = re.search(r"\bfor\s*\(([^;(){}]*);([^;{}]*);([^;{}]*)\)\s*\{", out)
        if not m:
            break
        end = _match_brace(out, m.end() - 1)
        if end is None:
            break
        inner = out[m.end():end - 1]
        if re.search(r"\bcontinue\b", inner):
            out = out[:m.start()] + "FOR_WITH_CONTINUE" + out[m.start() + 3:]     # left alone (and made unrecognisable on purpose)
            continue
        init, cond, step = m.group(1).strip(), m.group(2).strip(), m.group(3).strip()
        out = out[:m.start()] + (init + "; " if init else "") + "while (" + (cond or "1") + ") {" + inner.rstrip() + ("\n" + step + ";" if step else "") + "\n}" + out[end:]
    return out


ANALYSED = ("snoopy_filter_exclude_spawns_of", "find_ancestor_in_list", "find_string_in_array", "string_to_token_array")


def inline_static_calls(src, body, val, notes):
    """Statements `x = helper(a, b);` where `helper` is another file-local static function (not one of the functions this translator
    analyses by name) are replaced by the helper's body: parameters substituted by the (call-free) arguments, the local that the final
    `return r;` hands back renamed to `x`.  Early `return K;` statements (K an integer literal) are kept as `return K;` of the caller,
    which is what they amount to, ONLY when the statement behind the call is `if (x < M) { return K; }` with K < M; otherwise the call
    is left in place (and the statements moved into the helper stay unrecognised)."""
    statics = {}
    for m in re.finditer(r"^[ \t]*static\s+[\w\s\*]+?\b(\w+)\s*\(([^;{)]*)\)\s*\{", src, re.M):
        if m.group(1) not in ANALYSED:
            statics[m.group(1)] = [x.strip() for x in m.group(2).split(",")] if m.group(2).strip() not in ("", "void") else []
    out = body
    for _ in range(8):
        hit = None
        for h in statics:
            hit = re.search(r"(?<![\w>.])(\w+)\s*=\s*(?:\([\w\s]+\)\s*)?" + re.escape(h) + r"\s*\(([^;()]*)\)\s*;", out)
            if hit:
                hname = h
                break
        if not hit:
            break
        lhs, args = hit.group(1), [a.strip() for a in hit.group(2).split(",")] if hit.group(2).strip() else []
        params = [re.findall(r"\w+", p)[-1] for p in statics[hname] if re.findall(r"\w+", p)]
        hb = (func_body(src, hname) or "").strip()
        last = re.search(r"\breturn\s+([^;]+);\s*$", hb)
        why = None
        if len(params) != len(args) or not all(re.fullmatch(r"[\w\s>.\-+*&\[\]]+", a) for a in args):
            why = "arguments are not simple expressions"
        elif not last:
            why = "it does not end in a return statement"
        else:
            pre, ret = hb[:last.start()], last.group(1).strip()
            early = re.findall(r"\breturn\b\s*([^;]*);", pre)
            if early:
                nxt = re.match(r"\s*if\s*\(\s*" + re.escape(lhs) + r"\s*<\s*([^){}]+?)\s*\)\s*\{\s*return\s+(-?\d+)\s*;\s*\}", out[hit.end():])
                if not all(re.fullmatch(r"-?\d+", k.strip()) for k in early):
                    why = "it has an early return of a non-literal value"
                elif not nxt or any(k.strip() != nxt.group(2) for k in early):
                    why = "its early return value is not what the caller returns for small results"
                else:
                    mval = val(nxt.group(1))
                    if mval is None or not int(nxt.group(2)) < mval:
                        why = "its early return value does not take the caller's error branch"
        if why:
            notes.append("translator: spawns: call of static helper %s() not inlined (%s): the statements moved into it are not recognised" % (hname, why))
            out = out[:hit.start()] + out[hit.start():hit.end()].replace(hname, hname + "_NOT_INLINED") + out[hit.end():]
            continue
        sub = dict(zip(params, args))
        if re.fullmatch(r"\w+", ret) and ret not in sub and ret != lhs:
            sub[ret] = lhs                                             # the local handed back becomes the caller's variable
            ret = lhs
        if sub:
            pre = re.sub(r"\b(" + "|".join(re.escape(k) for k in sub) + r")\b", lambda mm: sub[mm.group(1)], pre)
            if ret in sub:
                ret = sub[ret]
        tail = "" if ret == lhs else "%s = %s;" % (lhs, ret)
        out = out[:hit.start()] + "\n" + pre + tail + "\n" + out[hit.end():]
    return out


def tr_spawns(run):
    raw = run.src(SRC)
    src = strip_comments(raw)
    notes = run.notes
    v = {}
    defs = "\n".join(re.findall(r"^[ \t]*#[ \t]*define[ \t]+[A-Za-z_0-9]+[ \t]+.*$", src, re.M))
    extra = "#include \"snoopy.h\"\n" + defs + "\n"

    def val(expr):
        expr = expr.strip()
        m = re.fullmatch(r"[A-Za-z_0-9+\-*/() \t]+", expr)
        return cpp_value(run, expr, includes=("limits.h",), extra_src=extra) if m else None

    def array_size(name, body):
        m = re.search(r"\bchar\s+" + name + r"\s*\[([^\]]+)\]", body)
        return val(m.group(1)) if m else None

    # --- separator and the strtok_r delimiter
    m = re.search(r"^[ \t]*#[ \t]*define[ \t]+PROGLISTSEP[ \t]+('(?:\\.|[^'\\])+')", src, re.M)
    v["sp_sep"] = char_lit(m.group(1)) if m else None
    tb = loops_to_while(func_body(src, "string_to_token_array") or "")
    d = re.search(r"char\s+(\w+)\s*\[\s*\]\s*=\s*\{\s*PROGLISTSEP\s*,\s*'\\0'\s*\}", tb)
    dn = re.escape(d.group(1)) if d else "delim"
    INC = r"(?:\1\s*\+\+|\+\+\s*\1|\1\s*\+=\s*1|\1\s*=\s*\1\s*\+\s*1)"
    fill = (r"(?:int\s+)?(\w+)\s*=\s*0\s*;\s*while\s*\(\s*\1\s*<\s*token_count\s*\)\s*\{\s*token_array\s*\[\s*\1\s*\]\s*=\s*strtok_r\s*\(\s*p\s*,\s*"
            + dn + r"\s*,\s*&\s*saveptr\s*\)\s*;\s*p\s*=\s*NULL\s*;\s*" + INC + r"\s*;\s*\}")
    shape = [
        ("char delim[] = { PROGLISTSEP, '\\0' }", bool(d)),
        ("if ((str == NULL) || (*str == '\\0')) return NULL", bool(re.search(r"\(\s*str\s*==\s*NULL\s*\)\s*\|\|\s*\(\s*\*str\s*==\s*'\\0'\s*\)", tb))),
        ("p = strchr(str, PROGLISTSEP) / p = strchr(p + 1, PROGLISTSEP) (separator count)",
         bool(re.search(r"strchr\s*\(\s*str\s*,\s*PROGLISTSEP\s*\)", tb)) and bool(re.search(r"strchr\s*\(\s*p\s*\+\s*1\s*,\s*PROGLISTSEP\s*\)", tb))),
        ("token_count = sepcount + 1", bool(re.search(r"token_count\s*=\s*sepcount\s*\+\s*1\s*;", tb))),
        ("calloc(token_count + 1, ...)", bool(re.search(r"calloc\s*\(\s*token_count\s*\+\s*1\s*,", tb))),
        ("p = str; then the loop  i = 0 .. token_count-1: token_array[i] = strtok_r(p, delim, &saveptr); p = NULL;  (for or while form)",
         bool(re.search(r"\bp\s*=\s*str\s*;\s*" + fill, tb)) or bool(re.search(r"(?:int\s+)?(\w+)\s*=\s*0\s*;\s*p\s*=\s*str\s*;\s*while\s*\(\s*\1\s*<\s*token_count", tb) and re.search(fill.replace(r"(?:int\s+)?(\w+)\s*=\s*0\s*;\s*", r"(?:int\s+)?(\w+)\s*=\s*0\s*;\s*p\s*=\s*str\s*;\s*", 1), tb))),
        ("token_array[token_count] = NULL", bool(re.search(r"token_array\s*\[\s*token_count\s*\]\s*=\s*NULL\s*;", tb))),
    ]
    ok_tok = all(okk for _, okk in shape)
    v["sp_strtok_delim_is_sep"] = ok_tok
    for what, okk in shape:
        if not okk:
            notes.append("translator: spawns: string_to_token_array: statement not recognised: %s" % what)

    # --- the loop body
    fb = inline_static_calls(src, loops_to_while(func_body(src, "find_ancestor_in_list") or ""), val, notes)
    buf = array_size("st_buf", fb)
    commbuf = array_size("st_comm_buf", fb)
    pathbuf = array_size("stat_path", fb)
    v["sp_buf_size"] = buf
    m = re.search(r"\b(\w+)\s*=\s*(?:\(\s*int\s*\)\s*)?fread\s*\(\s*st_buf\s*,\s*1\s*,\s*([^,]+?)\s*,\s*(\w+)\s*\)\s*;", fb)
    nread = m.group(1) if m else "rc"
    rd = val(m.group(2)) if m else None
    v["sp_read_adj"] = (buf - rd) if (buf is not None and rd is not None and buf >= rd) else None
    m2 = re.search(r"if\s*\(\s*" + nread + r"\s*<\s*([^)]+?)\s*\)\s*\{\s*return\s+-1\s*;", fb)
    v["sp_size_min"] = val(m2.group(1)) if m2 else None
    if not re.search(r"st_buf\s*\[\s*" + nread + r"\s*\]\s*=\s*(?:'\\0'|0)\s*;", fb):
        notes.append("translator: spawns: find_ancestor_in_list: statement not recognised: st_buf[<fread result>] = '\\0';")
        v["sp_read_adj"] = None
    m = re.search(r"snprintf\s*\(\s*stat_path\s*,\s*([^,]+?)\s*,\s*" + STR + r"\s*,\s*ppid\s*\)", fb)
    if m:
        pm = val(m.group(1))
        v["sp_path_max"] = pm if (pm is not None and pathbuf is not None and pm <= pathbuf) else None
        v["sp_path_fmt"] = c_unescape(m.group(2))
    if not re.search(r"statf\s*=\s*fopen\s*\(\s*stat_path\s*,\s*\"r\"\s*\)\s*;\s*if\s*\(\s*statf\s*==\s*NULL\s*\)\s*\{\s*return\s+-1\s*;", fb):
        notes.append("translator: spawns: fopen(stat_path, \"r\") / NULL => -1 not recognised")
        v["sp_path_fmt"] = None
    for fld, var, first_fld in (("sp_lparen", "left", "sp_left_first"), ("sp_rparen", "right", "sp_right_last")):
        m = re.search(r"\b" + var + r"\s*=\s*(strchr|strrchr)\s*\(\s*st_buf\s*,\s*('(?:\\.|[^'\\])+')\s*\)", fb)
        if m:
            v[fld] = char_lit(m.group(2))
            v[first_fld] = (m.group(1) == ("strchr" if var == "left" else "strrchr"))
    if not re.search(r"if\s*\(\s*left\s*==\s*NULL\s*\|\|\s*right\s*==\s*NULL\s*\)\s*\{\s*return\s+-1\s*;", fb):
        notes.append("translator: spawns: NULL test of left/right not recognised")
        v["sp_left_first"] = None
    # length window
    if re.search(r"\blen\s*=\s*right\s*-\s*left\s*-\s*1\s*;", fb) and re.search(r"\bsize_t\s+len\s*[;=]", fb):
        m = re.search(r"if\s*\(\s*((?:right\s*<\s*left\s*\|\|\s*)?len[^{]*?)\)\s*\{\s*return\s+-1\s*;", fb)
        cond = re.sub(r"\s+", "", m.group(1)) if m else ""
        m1 = re.fullmatch(r"len<=0\|\|len>=(.+)", cond)                  # empty names rejected (size_t: len <= 0 is len == 0)
        m2 = re.fullmatch(r"(?:right<left\|\|)?len>=(.+)", cond)          # only the upper bound (right < left wraps to a huge len anyway)
        if m1 or m2:
            w = val((m1 or m2).group(1))
            v["sp_reject_empty"] = bool(m1)
            v["sp_comm_max"] = w if (w is not None and commbuf is not None and w <= commbuf) else None
    if not (re.search(r"memcpy\s*\(\s*st_comm_buf\s*,\s*left\s*\+\s*1\s*,\s*len\s*\)\s*;", fb) and re.search(r"st_comm_buf\s*\[\s*len\s*\]\s*=\s*'\\0'\s*;", fb)):
        notes.append("translator: spawns: copy of the command (memcpy + terminator) not recognised")
        v["sp_comm_max"] = None
    m = re.search(r"\b(\w+)\s*=\s*sscanf\s*\(\s*right\s*\+\s*1\s*,\s*" + STR + r"\s*,\s*&\s*st_state\s*,\s*&\s*ppid\s*\)\s*;\s*if\s*\(\s*(?:\1\s*!=\s*2|2\s*!=\s*\1)\s*\)\s*\{\s*return\s+-1\s*;", fb)
    v["sp_scan_fmt"] = c_unescape(m.group(2)) if m else None
    if not re.search(r"\bpid_t\s+ppid\s*;", fb):
        v["sp_scan_fmt"] = None
    # start query and loop
    m = re.search(r"\bppid\s*=\s*(\w+)\s*\(\s*\)\s*;", fb)
    v["sp_start_parent"] = (m.group(1) == "getppid") if m else None
    if m and m.group(1) != "getppid":
        notes.append("translator: spawns: the walk starts at %s(), not at getppid()" % m.group(1))
    v["sp_loop_while_nonzero"] = bool(re.search(r"while\s*\(\s*ppid\s*!=\s*0\s*\)\s*\{", fb)) and not re.search(r"\b(break|goto|continue)\b", fb)
    if not v["sp_loop_while_nonzero"]:
        notes.append("translator: spawns: find_ancestor_in_list: statement not recognised: while (ppid != 0) { ... } without break/goto/continue")
    rets = re.findall(r"return\s+(-?\d+)\s*;", fb)
    found_ret = re.search(r"(\w+)\s*=\s*find_string_in_array\s*\(\s*st_comm_buf\s*,\s*name_list\s*\)\s*;\s*if\s*\(\s*\1\s*(?:!=\s*0\s*|==\s*1\s*)?\)\s*\{\s*return\s+1\s*;", fb) \
        or re.search(r"if\s*\(\s*find_string_in_array\s*\(\s*st_comm_buf\s*,\s*name_list\s*\)\s*(?:!=\s*0\s*|==\s*1\s*)?\)\s*\{\s*return\s+1\s*;", fb)
    codes_ok = bool(found_ret) and rets.count("1") == 1 and bool(rets) and rets[-1] == "0" and rets.count("0") == 1 and all(r in ("1", "0", "-1") for r in rets)
    # comparison
    sb = loops_to_while(func_body(src, "find_string_in_array") or "")
    E = None
    mc = re.search(r"strcmp\s*\(\s*([^,()]+?)\s*,\s*([^,()]+?)\s*\)", sb)
    if mc:
        a_, b_ = mc.group(1).strip(), mc.group(2).strip()
        E = b_ if a_ == "str" else a_ if b_ == "str" else None
    walk_ok = False
    if E:
        Ee = re.escape(E).replace(r"\ ", r"\s*")
        CMP = r"strcmp\s*\(\s*(?:str\s*,\s*" + Ee + r"|" + Ee + r"\s*,\s*str)\s*\)"
        cmp_ok = bool(re.search(r"if\s*\(\s*(?:" + CMP + r"\s*==\s*0|0\s*==\s*" + CMP + r"|!\s*" + CMP + r")\s*\)\s*\{\s*return\s+1\s*;", sb))
        loop_ok = bool(re.search(r"while\s*\(\s*(?:" + Ee + r"\s*!=\s*NULL|NULL\s*!=\s*" + Ee + r"|" + Ee + r")\s*\)", sb))
        # the element expression walks str_array from its first slot, one slot per round
        mp = re.fullmatch(r"\*\s*(\w+)", E)
        mi = re.fullmatch(r"str_array\s*\[\s*(\w+)\s*\]", E)
        INCV = r"(?:%s\s*\+\+|\+\+\s*%s|%s\s*\+=\s*1)\s*;"
        if mp and mp.group(1) == "str_array":
            walk_ok = bool(re.search(INCV % (("str_array",) * 3), sb))
        elif mp:
            pv = mp.group(1)
            walk_ok = bool(re.search(r"\b" + pv + r"\s*=\s*str_array\s*;", sb)) and bool(re.search(INCV % ((pv,) * 3), sb))
        elif mi:
            iv = mi.group(1)
            walk_ok = bool(re.search(r"\b" + iv + r"\s*=\s*0\s*;", sb)) and bool(re.search(INCV % ((iv,) * 3), sb))
    else:
        cmp_ok = loop_ok = False
    cmp_shape = [
        ("if (strcmp(str, <element>) == 0) { return 1; }", cmp_ok),
        ("while (<element> != NULL) { ... } (for or while form) over the same <element> (*p, str_array[i] or *str_array)", loop_ok),
        ("<element> starts at the first slot of str_array and advances by one per round", walk_ok),
        ("no other comparison function (strncmp, strcasecmp, strstr, memcmp) and exactly one strcmp in find_string_in_array",
         not re.search(r"strn?casecmp|strncmp|strstr|memcmp|strnlen", sb) and len(re.findall(r"\bstrcmp\b", sb)) == 1),
        ("find_string_in_array returns only 1 (match) and 0", set(re.findall(r"return\s+([^;]+);", sb)) <= {"1", "0"}),
    ]
    v["sp_cmp_exact"] = all(okk for _, okk in cmp_shape)
    for what, okk in cmp_shape:
        if not okk:
            notes.append("translator: spawns: find_string_in_array: statement not recognised: %s" % what)
    # verdict mapping
    ok_shape, why_shape = same_shape(src, "snoopy_filter_exclude_spawns_of", REFERENCE_FILTER_FN)
    if not ok_shape:
        # the statements that decide the verdict, textually (tolerates another way of making the private copy of arg)
        mb = func_body(src, "snoopy_filter_exclude_spawns_of") or ""
        ok_shape = bool(re.search(r"return\s*\(\s*is_ancestor_in_list\s*==\s*1\s*\)\s*\?\s*SNOOPY_FILTER_DROP\s*:\s*SNOOPY_FILTER_PASS\s*;", mb)) \
            and bool(re.search(r"if\s*\(\s*losp\s*==\s*NULL\s*\)\s*\{[^}]*return\s+SNOOPY_FILTER_PASS\s*;", mb)) \
            and bool(re.search(r"is_ancestor_in_list\s*=\s*find_ancestor_in_list\s*\(\s*losp\s*\)\s*;", mb)) \
            and bool(re.search(r"\blosp\s*=\s*string_to_token_array\s*\(\s*argDup\s*\)\s*;", mb)) \
            and len(re.findall(r"\breturn\b", mb)) == 2 and not re.search(r"\bstatic\b", mb)
    verdict_shape = [
        ("snoopy_filter_exclude_spawns_of has the paths of: dup = strdup(arg); l = string_to_token_array(dup); if (l == NULL) { free(dup); return PASS; } "
         "r = find_ancestor_in_list(l); free(l); free(dup); return (r == 1) ? DROP : PASS;  [%s]" % (why_shape or ""), ok_shape),
        ("find_ancestor_in_list returns 1 only behind a successful find_string_in_array(st_comm_buf, name_list), 0 only at the end, -1 elsewhere", codes_ok),
    ]
    v["sp_drop_iff_found"] = all(bool(okk) for _, okk in verdict_shape)
    for what, okk in verdict_shape:
        if not okk:
            notes.append("translator: spawns: verdict mapping: statement not recognised: %s" % what)
    v["sp_pass"] = cpp_value(run, "SNOOPY_FILTER_PASS", includes=("limits.h", "snoopy.h"))
    v["sp_drop"] = cpp_value(run, "SNOOPY_FILTER_DROP", includes=("limits.h", "snoopy.h"))

    # --- emit
    fields, tsv, js = [], [], {}
    for k in ORDER:
        x = v.get(k)
        if x is None:
            notes.append("translator: could not read spawns.%s from the source%s" % (k, (": statement not recognised: " + EXPECT[k]) if k in EXPECT else ""))
            x = BAD[k]
        kind = KIND.get(k, "bool")
        if kind == "bool":
            fields.append("%s := %s" % (k, "true" if x else "false")); tsv.append("%s\t%d" % (k, 1 if x else 0)); js[k] = bool(x)
        elif kind == "byte":
            fields.append("%s := x%02x" % (k, x)); tsv.append("%s\t%02x" % (k, x)); js[k] = x
        elif kind == "bytes":
            fields.append("%s := %s" % (k, coq_bytes(x))); tsv.append("%s\t%s" % (k, hexs(x))); js[k] = x.hex()
        elif kind == "N":
            fields.append("%s := %d%%N" % (k, x)); tsv.append("%s\t%d" % (k, x)); js[k] = x
        else:
            fields.append("%s := (%d)%%Z" % (k, x)); tsv.append("%s\t%d" % (k, x)); js[k] = x
    text = ("(* GENERATED from the current working tree (%s) by vlib/tr_spawns.py -- do not edit *)\n"
            "From Coq Require Import ZArith.\nFrom Snoopy Require Import Lib.CStr Spawns.Model.\n"
            "Definition consts : spawns_consts :=\n  {| %s |}.\n" % (SRC, ";\n     ".join(fields)))
    run.write_gen("Gen_Spawns.v", text)
    write_sidecars(run, "spawns", js, tsv)
    run.consts["spawns"] = js
    return js
