"""T1 translator for src/filter/exclude_spawns_of.c (C15): buffer sizes, the fread length, the length window,
the two format strings, the delimiter, the parentheses and which search finds each, the start pid query
(getppid vs getpid), the loop condition, the comparison and the verdict mapping.

Writes <scratch>/gen/Gen_Spawns.v (record spawns_consts of Spawns/Model.v), consts_spawns.json/.tsv.
Anything not recognised is rendered as a value that makes spawns_consts_ok false, with a note.
"""
import json, os, re
from .translate import strip_comments, func_body, c_unescape, cpp_value, STR, write_sidecars
from .core import coq_bytes, hexs

SRC = "src/filter/exclude_spawns_of.c"

ORDER = ["sp_sep", "sp_strtok_delim_is_sep", "sp_comm_max", "sp_buf_size", "sp_read_adj", "sp_size_min", "sp_path_max",
         "sp_path_fmt", "sp_scan_fmt", "sp_lparen", "sp_rparen", "sp_left_first", "sp_right_last", "sp_reject_empty",
         "sp_start_parent", "sp_loop_while_nonzero", "sp_cmp_exact", "sp_drop_iff_found", "sp_pass", "sp_drop"]
KIND = {"sp_sep": "byte", "sp_lparen": "byte", "sp_rparen": "byte", "sp_path_fmt": "bytes", "sp_scan_fmt": "bytes",
        "sp_comm_max": "N", "sp_buf_size": "N", "sp_read_adj": "N", "sp_size_min": "N", "sp_path_max": "N", "sp_pass": "Z", "sp_drop": "Z"}
# values that make spawns_consts_ok false
BAD = {"sp_sep": 0, "sp_lparen": 0, "sp_rparen": 0, "sp_path_fmt": b"", "sp_scan_fmt": b"", "sp_comm_max": 0, "sp_buf_size": 0,
       "sp_read_adj": 0, "sp_size_min": 999, "sp_path_max": 0, "sp_pass": 0, "sp_drop": 0,
       "sp_strtok_delim_is_sep": False, "sp_left_first": False, "sp_right_last": False, "sp_reject_empty": True,
       "sp_start_parent": False, "sp_loop_while_nonzero": False, "sp_cmp_exact": False, "sp_drop_iff_found": False}


def char_lit(txt):
    """'x' or '\\n' -> int, else None"""
    m = re.fullmatch(r"'((?:\\.|[^'\\])+)'", txt.strip())
    if not m:
        return None
    b = c_unescape(m.group(1))
    return b[0] if len(b) == 1 else None


def tr_spawns(run):
    raw = run.src(SRC)
    src = strip_comments(raw)
    notes = run.notes
    v = {}
    defs = "\n".join(re.findall(r"^[ \t]*#[ \t]*define[ \t]+[A-Za-z_0-9]+[ \t]+.*$", src, re.M))
    extra = "#include \"snoopy.h\"\n" + defs + "\n"

    def val(expr):
        expr = expr.strip()
        m = re.fullmatch(r"[A-Za-z_0-9+\-*/() \t]+", expr)
        return cpp_value(run, expr, includes=("limits.h",), extra_src=extra) if m else None

    def array_size(name, body):
        m = re.search(r"\bchar\s+" + name + r"\s*\[([^\]]+)\]", body)
        return val(m.group(1)) if m else None

    # --- separator and the strtok_r delimiter
    m = re.search(r"^[ \t]*#[ \t]*define[ \t]+PROGLISTSEP[ \t]+('(?:\\.|[^'\\])+')", src, re.M)
    v["sp_sep"] = char_lit(m.group(1)) if m else None
    tb = func_body(src, "string_to_token_array") or ""
    d = re.search(r"char\s+(\w+)\s*\[\s*\]\s*=\s*\{\s*PROGLISTSEP\s*,\s*'\\0'\s*\}", tb)
    ok_tok = bool(d) and bool(re.search(r"strtok_r\s*\(\s*p\s*,\s*" + (d.group(1) if d else "delim") + r"\s*,\s*&\s*saveptr\s*\)", tb))
    # the slot count and the NULL tail: token_count = sepcount + 1; calloc(token_count + 1, ...); i < token_count; token_array[token_count] = NULL
    ok_tok = ok_tok and bool(re.search(r"token_count\s*=\s*sepcount\s*\+\s*1\s*;", tb)) \
        and bool(re.search(r"calloc\s*\(\s*token_count\s*\+\s*1\s*,", tb)) \
        and bool(re.search(r"for\s*\(\s*int\s+i\s*=\s*0\s*;\s*i\s*<\s*token_count\s*;\s*i\+\+\s*\)", tb)) \
        and bool(re.search(r"token_array\s*\[\s*token_count\s*\]\s*=\s*NULL\s*;", tb)) \
        and bool(re.search(r"strchr\s*\(\s*str\s*,\s*PROGLISTSEP\s*\)", tb)) and bool(re.search(r"strchr\s*\(\s*p\s*\+\s*1\s*,\s*PROGLISTSEP\s*\)", tb)) \
        and bool(re.search(r"\(\s*str\s*==\s*NULL\s*\)\s*\|\|\s*\(\s*\*str\s*==\s*'\\0'\s*\)", tb))
    v["sp_strtok_delim_is_sep"] = ok_tok
    if not ok_tok:
        notes.append("translator: spawns: string_to_token_array no longer has the recognised shape (separator count, calloc(count+2), strtok_r loop, NULL tail)")

    # --- the loop body
    fb = func_body(src, "find_ancestor_in_list") or ""
    buf = array_size("st_buf", fb)
    commbuf = array_size("st_comm_buf", fb)
    pathbuf = array_size("stat_path", fb)
    v["sp_buf_size"] = buf
    m = re.search(r"fread\s*\(\s*st_buf\s*,\s*1\s*,\s*([^,]+?)\s*,\s*statf\s*\)", fb)
    rd = val(m.group(1)) if m else None
    v["sp_read_adj"] = (buf - rd) if (buf is not None and rd is not None and buf >= rd) else None
    m = re.search(r"if\s*\(\s*rc\s*<\s*([^)]+?)\s*\)\s*\{\s*return\s+-1\s*;", fb)
    v["sp_size_min"] = val(m.group(1)) if m else None
    if not re.search(r"st_buf\s*\[\s*rc\s*\]\s*=\s*'\\0'\s*;", fb):
        notes.append("translator: spawns: st_buf[rc] = 0 not found")
        v["sp_read_adj"] = None
    m = re.search(r"snprintf\s*\(\s*stat_path\s*,\s*([^,]+?)\s*,\s*" + STR + r"\s*,\s*ppid\s*\)", fb)
    if m:
        pm = val(m.group(1))
        v["sp_path_max"] = pm if (pm is not None and pathbuf is not None and pm <= pathbuf) else None
        v["sp_path_fmt"] = c_unescape(m.group(2))
    if not re.search(r"statf\s*=\s*fopen\s*\(\s*stat_path\s*,\s*\"r\"\s*\)\s*;\s*if\s*\(\s*statf\s*==\s*NULL\s*\)\s*\{\s*return\s+-1\s*;", fb):
        notes.append("translator: spawns: fopen(stat_path, \"r\") / NULL => -1 not recognised")
        v["sp_path_fmt"] = None
    for fld, var, first_fld in (("sp_lparen", "left", "sp_left_first"), ("sp_rparen", "right", "sp_right_last")):
        m = re.search(r"\b" + var + r"\s*=\s*(strchr|strrchr)\s*\(\s*st_buf\s*,\s*('(?:\\.|[^'\\])+')\s*\)", fb)
        if m:
            v[fld] = char_lit(m.group(2))
            v[first_fld] = (m.group(1) == ("strchr" if var == "left" else "strrchr"))
    if not re.search(r"if\s*\(\s*left\s*==\s*NULL\s*\|\|\s*right\s*==\s*NULL\s*\)\s*\{\s*return\s+-1\s*;", fb):
        notes.append("translator: spawns: NULL test of left/right not recognised")
        v["sp_left_first"] = None
    # length window
    if re.search(r"\blen\s*=\s*right\s*-\s*left\s*-\s*1\s*;", fb) and re.search(r"\bsize_t\s+len\s*;", fb):
        m = re.search(r"if\s*\(\s*((?:right\s*<\s*left\s*\|\|\s*)?len[^{]*?)\)\s*\{\s*return\s+-1\s*;", fb)
        cond = re.sub(r"\s+", "", m.group(1)) if m else ""
        m1 = re.fullmatch(r"len<=0\|\|len>=(.+)", cond)                  # empty names rejected (size_t: len <= 0 is len == 0)
        m2 = re.fullmatch(r"(?:right<left\|\|)?len>=(.+)", cond)          # only the upper bound (right < left wraps to a huge len anyway)
        if m1 or m2:
            w = val((m1 or m2).group(1))
            v["sp_reject_empty"] = bool(m1)
            v["sp_comm_max"] = w if (w is not None and commbuf is not None and w <= commbuf) else None
    if not (re.search(r"memcpy\s*\(\s*st_comm_buf\s*,\s*left\s*\+\s*1\s*,\s*len\s*\)\s*;", fb) and re.search(r"st_comm_buf\s*\[\s*len\s*\]\s*=\s*'\\0'\s*;", fb)):
        notes.append("translator: spawns: copy of the command (memcpy + terminator) not recognised")
        v["sp_comm_max"] = None
    m = re.search(r"rc\s*=\s*sscanf\s*\(\s*right\s*\+\s*1\s*,\s*" + STR + r"\s*,\s*&\s*st_state\s*,\s*&\s*ppid\s*\)\s*;\s*if\s*\(\s*rc\s*!=\s*2\s*\)\s*\{\s*return\s+-1\s*;", fb)
    v["sp_scan_fmt"] = c_unescape(m.group(1)) if m else None
    if not re.search(r"\bpid_t\s+ppid\s*;", fb):
        v["sp_scan_fmt"] = None
    # start query and loop
    m = re.search(r"\bppid\s*=\s*(\w+)\s*\(\s*\)\s*;", fb)
    v["sp_start_parent"] = (m.group(1) == "getppid") if m else None
    if m and m.group(1) != "getppid":
        notes.append("translator: spawns: the walk starts at %s(), not at getppid()" % m.group(1))
    v["sp_loop_while_nonzero"] = bool(re.search(r"while\s*\(\s*ppid\s*!=\s*0\s*\)\s*\{", fb)) and not re.search(r"\b(break|goto|continue)\b", fb)
    rets = re.findall(r"return\s+(-?\d+)\s*;", fb)
    found_ret = re.search(r"found\s*=\s*find_string_in_array\s*\(\s*st_comm_buf\s*,\s*name_list\s*\)\s*;\s*if\s*\(\s*found\s*\)\s*\{\s*return\s+1\s*;", fb)
    codes_ok = bool(found_ret) and rets.count("1") == 1 and bool(rets) and rets[-1] == "0" and rets.count("0") == 1 and all(r in ("1", "0", "-1") for r in rets)
    # comparison
    sb = func_body(src, "find_string_in_array") or ""
    v["sp_cmp_exact"] = bool(re.search(r"if\s*\(\s*strcmp\s*\(\s*str\s*,\s*\*p\s*\)\s*==\s*0\s*\)\s*\{\s*return\s+1\s*;", sb)) \
        and bool(re.search(r"while\s*\(\s*\*p\s*!=\s*NULL\s*\)", sb)) and not re.search(r"strn?casecmp|strncmp|strstr|memcmp", sb)
    # verdict mapping
    mb = func_body(src, "snoopy_filter_exclude_spawns_of") or ""
    tern = re.search(r"return\s*\(\s*is_ancestor_in_list\s*==\s*1\s*\)\s*\?\s*SNOOPY_FILTER_DROP\s*:\s*SNOOPY_FILTER_PASS\s*;", mb)
    early = re.search(r"if\s*\(\s*losp\s*==\s*NULL\s*\)\s*\{[^}]*return\s+SNOOPY_FILTER_PASS\s*;", mb)
    call = re.search(r"is_ancestor_in_list\s*=\s*find_ancestor_in_list\s*\(\s*losp\s*\)\s*;", mb)
    v["sp_drop_iff_found"] = bool(tern) and bool(early) and bool(call) and codes_ok and len(re.findall(r"\breturn\b", mb)) == 2
    v["sp_pass"] = cpp_value(run, "SNOOPY_FILTER_PASS", includes=("limits.h", "snoopy.h"))
    v["sp_drop"] = cpp_value(run, "SNOOPY_FILTER_DROP", includes=("limits.h", "snoopy.h"))

    # --- emit
    fields, tsv, js = [], [], {}
    for k in ORDER:
        x = v.get(k)
        if x is None:
            notes.append("translator: could not read spawns.%s from the source" % k)
            x = BAD[k]
        kind = KIND.get(k, "bool")
        if kind == "bool":
            fields.append("%s := %s" % (k, "true" if x else "false")); tsv.append("%s\t%d" % (k, 1 if x else 0)); js[k] = bool(x)
        elif kind == "byte":
            fields.append("%s := x%02x" % (k, x)); tsv.append("%s\t%02x" % (k, x)); js[k] = x
        elif kind == "bytes":
            fields.append("%s := %s" % (k, coq_bytes(x))); tsv.append("%s\t%s" % (k, hexs(x))); js[k] = x.hex()
        elif kind == "N":
            fields.append("%s := %d%%N" % (k, x)); tsv.append("%s\t%d" % (k, x)); js[k] = x
        else:
            fields.append("%s := (%d)%%Z" % (k, x)); tsv.append("%s\t%d" % (k, x)); js[k] = x
    text = ("(* GENERATED from the current working tree (%s) by vlib/tr_spawns.py -- do not edit *)\n"
            "From Coq Require Import ZArith.\nFrom Snoopy Require Import Lib.CStr Spawns.Model.\n"
            "Definition consts : spawns_consts :=\n  {| %s |}.\n" % (SRC, ";\n     ".join(fields)))
    run.write_gen("Gen_Spawns.v", text)
    write_sidecars(run, "spawns", js, tsv)
    run.consts["spawns"] = js
    return js
