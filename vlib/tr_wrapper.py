"""T2 translator for the exec wrappers, init/cleanup, the logging action and dispatch (C01, C04, C06, C07, C16),
and the library's external call set / indirect call sites (Gen_Calls.v)."""
import os, re, subprocess
from concurrent.futures import ThreadPoolExecutor
from .core import CheckError, NCPU
from .skel import emit_skeletons, clang_ast, functions, q, strip
from .translate import strip_comments

WRAPPER_ITEMS = [
    ("sk_execv", "src/entrypoint/execve-wrapper.c", "execv"),
    ("sk_execve", "src/entrypoint/execve-wrapper.c", "execve"),
    ("sk_wrapper_init", "src/entrypoint/execve-wrapper.c", "snoopy_entrypoint_execve_wrapper_init"),
    ("sk_wrapper_exit", "src/entrypoint/execve-wrapper.c", "snoopy_entrypoint_execve_wrapper_exit"),
    ("sk_init", "src/init-deinit.c", "snoopy_init"),
    ("sk_cleanup", "src/init-deinit.c", "snoopy_cleanup"),
    ("sk_action", "src/action/log-syscall-exec.c", "snoopy_action_log_syscall_exec"),
    ("sk_dispatch", "src/action/log-message-dispatch.c", "snoopy_action_log_message_dispatch"),
    ("sk_ids_ctor", "src/inputdatastorage.c", "snoopy_inputdatastorage_ctor"),
    ("sk_ids_dtor", "src/inputdatastorage.c", "snoopy_inputdatastorage_dtor"),
    ("sk_ids_defaults", "src/inputdatastorage.c", "snoopy_inputdatastorage_setDefaults"),
    ("sk_store_filename", "src/inputdatastorage.c", "snoopy_inputdatastorage_store_filename"),
    ("sk_store_argv", "src/inputdatastorage.c", "snoopy_inputdatastorage_store_argv"),
    ("sk_store_envp", "src/inputdatastorage.c", "snoopy_inputdatastorage_store_envp"),
]


def tr_wrapper(run):
    emit_skeletons(run, "Wrapper", WRAPPER_ITEMS, inline_static=True, canon_cmp=True)
    # const-qualification of the stored pointers (C01: the library only reads through them)
    h = strip_comments(run.src("src/inputdatastorage.h"))
    const_ok = bool(re.search(r"const\s+char\s*\*\s*filename\s*;", h) and re.search(r"char\s*\*\s*const\s*\*\s*argv\s*;", h)
                    and re.search(r"char\s*\*\s*const\s*\*\s*envp\s*;", h))
    if not const_ok:
        run.notes.append("translator: input data storage fields are not the expected const-qualified pointer types")
    with open(os.path.join(run.gen, "Gen_Wrapper.v"), "a") as f:
        f.write("\nDefinition ids_fields_const : bool := %s.\n" % ("true" if const_ok else "false"))


def _strip_casts(n):
    while n.get("kind") in ("ParenExpr", "ImplicitCastExpr", "CStyleCastExpr") and n.get("inner"):
        n = n["inner"][0]
    return n


def dlsym_locals(fnode):
    """local pointer variables of one function whose every assignment/initialiser is dlsym(<handle>, "<name>") with one and the same
    name: {decl id: name}.  A call through such a variable is described by where the pointer comes from, not by the variable's name."""
    seen = {}

    def src(e):
        e = _strip_casts(e)
        if e.get("kind") == "CallExpr" and e.get("inner"):
            c = _strip_casts(e["inner"][0])
            if c.get("kind") == "DeclRefExpr" and c.get("referencedDecl", {}).get("name") == "dlsym" and len(e["inner"]) == 3:
                a = _strip_casts(e["inner"][2])
                if a.get("kind") == "StringLiteral":
                    return a.get("value", "").strip('"')
        return None

    def walk(n):
        k = n.get("kind")
        if k == "VarDecl" and n.get("storageClass") not in ("static", "extern"):
            ini = [c for c in n.get("inner", []) or [] if isinstance(c, dict) and c.get("kind", "").endswith("Expr")]
            seen.setdefault(n.get("id"), [])
            if ini:
                seen[n["id"]].append(src(ini[0]))
        if k == "BinaryOperator" and n.get("opcode") == "=" and n.get("inner"):
            l = _strip_casts(n["inner"][0])
            if l.get("kind") == "DeclRefExpr" and l.get("referencedDecl", {}).get("id") in seen:
                seen[l["referencedDecl"]["id"]].append(src(n["inner"][1]))
        if k == "UnaryOperator" and n.get("opcode") == "&" and n.get("inner"):
            l = _strip_casts(n["inner"][0])
            if l.get("kind") == "DeclRefExpr" and l.get("referencedDecl", {}).get("id") in seen:
                seen[l["referencedDecl"]["id"]].append(None)          # address taken: could be written elsewhere
        for c in n.get("inner", []) or []:
            if isinstance(c, dict):
                walk(c)
    walk(fnode)
    return {i: v[0] for i, v in seen.items() if v and all(x is not None and x == v[0] for x in v)}


def indirect_sites(node, fname, out, dl=None):
    """collect (function, description of the called pointer expression) for every call not through a function designator"""
    if dl is None:
        dl = dlsym_locals(node)
    k = node.get("kind")
    if k == "CallExpr" and node.get("inner"):
        callee = strip(node["inner"][0])
        if not (callee.get("kind") == "DeclRefExpr" and callee.get("referencedDecl", {}).get("kind") == "FunctionDecl"):
            # head variable of the pointer expression
            n = callee
            while n.get("kind") in ("UnaryOperator", "ArraySubscriptExpr", "ParenExpr", "ImplicitCastExpr", "MemberExpr", "CStyleCastExpr") and n.get("inner"):
                if n.get("kind") == "MemberExpr":
                    break
                n = n["inner"][0]
            head = n.get("referencedDecl", {}).get("name") or n.get("name") or n.get("kind")
            if n.get("referencedDecl", {}).get("id") in dl:
                head = "dlsym<%s>" % dl[n["referencedDecl"]["id"]]
            out.append((fname, str(head)))
    for c in node.get("inner", []) or []:
        if isinstance(c, dict):
            indirect_sites(c, fname, out, dl)


def tr_calls(run, objs):
    """Gen_Calls.v: external_calls (nm -u over the library objects built from the snapshot) and
    indirect_calls (AST: every call through a pointer, as "function:pointer")."""
    und = set()
    defined = set()
    for o in objs:
        p = subprocess.run(["nm", o], stdout=subprocess.PIPE, text=True)
        for line in p.stdout.splitlines():
            parts = line.split()
            if len(parts) == 2 and parts[0] == "U":
                und.add(parts[1])
            elif len(parts) == 3 and parts[1] in "TtDdBbRrWwVv":
                defined.add(parts[2])
    ext = sorted(s for s in und - defined if not s.startswith("__asan") and not s.startswith("__ubsan") and not s.startswith("__sanitizer")
                 and s not in ("_GLOBAL_OFFSET_TABLE_", "__stack_chk_fail", "__tsan_init"))
    srcs = [os.path.relpath(s, run.tree) for s in run.lib_sources(entry=True)]

    def one(rel):
        tu = clang_ast(run, rel)
        out = []
        for name, node in functions(tu).items():
            indirect_sites(node, name, out)
        return out
    with ThreadPoolExecutor(NCPU) as ex:
        res = list(ex.map(one, srcs))
    ind = sorted(set("%s:%s" % x for r in res for x in r))
    text = ("(* GENERATED from the current /repo working tree (nm -u on the objects built from it; clang AST) -- do not edit *)\n"
            "From Coq Require Import String List.\nImport ListNotations.\nLocal Open Scope string_scope.\n"
            "Definition external_calls : list string :=\n  [%s].\n"
            "Definition indirect_calls : list string :=\n  [%s].\n" % ("; ".join(q(s) for s in ext), "; ".join(q(s) for s in ind)))
    run.write_gen("Gen_Calls.v", text)
    run.consts["calls"] = {"external": ext, "indirect": ind}
    return ext, ind
