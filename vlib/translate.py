"""T1 translator: constants, literals and small expressions read from the current sources.

Each tr_<area>(run) returns a dict of named values and writes
  <scratch>/gen/Gen_<Area>.v   (a Coq record instance; re-checked by props/*.v on every run)
  <scratch>/consts_<area>.json (same values for generators)
  <scratch>/consts_<area>.tsv  (same values for the OCaml model driver)
A pattern that no longer matches yields the value None, rendered as a value that makes the
area's consts_ok fail (so the proof obligation gen_ok breaks) and recorded in run.notes.
"""
import json, os, re, subprocess
from .core import coq_bytes, hexs, CheckError


def strip_comments(s):
    def rep(m):
        t = m.group(0)
        return " " if t.startswith("/") else t
    return re.sub(r'//[^\n]*|/\*.*?\*/|"(?:\\.|[^"\\])*"|\'(?:\\.|[^\'\\])*\'', rep, s, flags=re.S)


def c_unescape(lit):
    """C string literal body -> bytes"""
    out = bytearray()
    i = 0
    simple = {"n": 10, "t": 9, "r": 13, "0": 0, "\\": 92, '"': 34, "'": 39, "a": 7, "b": 8, "f": 12, "v": 11, "?": 63}
    while i < len(lit):
        ch = lit[i]
        if ch == "\\":
            i += 1
            e = lit[i]
            if e == "x":
                j = i + 1
                while j < len(lit) and lit[j] in "0123456789abcdefABCDEF":
                    j += 1
                out.append(int(lit[i + 1:j], 16) & 255)
                i = j
                continue
            if e in "01234567":
                j = i
                while j < len(lit) and j < i + 3 and lit[j] in "01234567":
                    j += 1
                out.append(int(lit[i:j], 8) & 255)
                i = j
                continue
            out.append(simple.get(e, ord(e)))
            i += 1
        else:
            out += ch.encode("utf-8")
            i += 1
    return bytes(out)


STR = r'"((?:\\.|[^"\\])*)"'


def func_body(src, name):
    """Text of the body of function `name` (comments stripped), or None."""
    m = None
    for c in re.finditer(r"\b" + re.escape(name) + r"\s*\([^;{]*\)\s*\{", src):
        # a definition header: the name follows a type (identifier or '*'), not '(' , '!' , '=' ... as in `if (name(x)) {`
        pre = src[:c.start()].rstrip()
        if pre and (pre[-1].isalnum() or pre[-1] in "_*") and not re.search(r"\b(return|else|do|case|goto)$", pre):
            m = c
            break
    if not m:
        return None
    i = m.end()
    depth = 1
    j = i
    while j < len(src) and depth:
        if src[j] == "{":
            depth += 1
        elif src[j] == "}":
            depth -= 1
        elif src[j] == '"':
            j += 1
            while j < len(src) and src[j] != '"':
                j += 2 if src[j] == "\\" else 1
        j += 1
    return src[i:j - 1]


def defines(src):
    d = {}
    for m in re.finditer(r"^[ \t]*#[ \t]*define[ \t]+([A-Za-z_0-9]+)[ \t]+(.+?)[ \t]*$", strip_comments(src), re.M):
        d[m.group(1)] = m.group(2).strip()
    return d


def cpp_value(run, expr, includes=("limits.h",), extra_src=""):
    """Evaluate an integer constant expression with the preprocessor+compiler of the build."""
    prog = "".join("#include <%s>\n" % i for i in includes) + extra_src + "\n#include <stdio.h>\nint main(){printf(\"%%lld\\n\",(long long)(%s));return 0;}\n" % expr
    exe = os.path.join(run.scratch, "cppval")
    p = subprocess.run(["gcc", "-x", "c", "-", "-o", exe, "-I" + run.tree, "-I" + os.path.join(run.tree, "src"), "-DHAVE_CONFIG_H", "-w"],
                       input=prog, text=True, stdout=subprocess.PIPE, stderr=subprocess.STDOUT)
    if p.returncode != 0:
        return None
    return int(subprocess.run([exe], stdout=subprocess.PIPE, text=True).stdout.strip())


def resolve_locals(body):
    """Textual normalisation for the regex translators: a local that is assigned exactly once from a call-free expression over
    struct fields (`n = CFG->x + 1;`) or from `strlen(<identifier>)` is replaced by that expression in the text that follows, and the
    assignment is dropped.  "Hoist a repeated expression into a local" refactorings then leave the recognised statements unchanged."""
    TY = r"(?:const\s+)?(?:size_t|ssize_t|int|unsigned(?:\s+int)?|long)\s+(?:const\s+)?"
    out = body
    for _ in range(8):
        changed = False
        for m in re.finditer(r"^[ \t]*(?:" + TY + r")?(\w+)[ \t]*=[ \t]*([^;{}=\n]+);", out, re.M):
            name, expr = m.group(1), m.group(2).strip()
            is_strlen = re.fullmatch(r"strlen\s*\(\s*\w+\s*\)", expr) is not None
            is_len = "strlen" in expr and re.fullmatch(r"(?:strlen\s*\(\s*\w+\s*\)|[\d\s+\-()])+", expr) is not None
            is_field = re.fullmatch(r"[\w\s>+\-.()]+", expr) is not None and "->" in expr and not re.search(r"\b\w+\s*\(", expr)
            if not (is_strlen or is_field or is_len):
                continue
            if len(re.findall(r"\b%s\b\s*(?:=(?!=)|\+\+|--|\+=|-=)" % re.escape(name), out)) != 1 or re.search(r"&\s*%s\b" % re.escape(name), out):
                continue
            head, tail = out[:m.start()], out[m.end():]
            head = re.sub(r"^[ \t]*" + TY + re.escape(name) + r"\s*;[ \t]*\n", "", head, flags=re.M)
            rep = expr if (is_strlen or re.fullmatch(r"[\w>.\-]+", expr)) else "(" + expr + ")"
            tail = re.sub(r"\b%s\b" % re.escape(name), lambda _m: rep, tail)
            out = head + tail
            changed = True
            break
        if not changed:
            break
    return out


def reachable_body(src, fn, depth=2):
    """body of `fn` followed by the bodies of the file-local static functions it calls (transitively, to the given depth):
    the text the regex translators search when a statement may have been moved into a static helper of the same file."""
    body = func_body(src, fn) or ""
    seen, todo, out = {fn}, [(body, 0)], [body]
    statics = set(re.findall(r"^\s*static\s+[\w\s\*]+?\b(\w+)\s*\([^;{]*\)\s*\{", src, re.M))
    while todo:
        b, d = todo.pop()
        if d >= depth:
            continue
        for name in statics:
            if name not in seen and re.search(r"\b%s\s*\(" % re.escape(name), b):
                seen.add(name)
                hb = func_body(src, name) or ""
                out.append(hb)
                todo.append((hb, d + 1))
    return "\n".join(out)


def adj(expr, var):
    """expr is `var` or `var + k` / `var+k`: return k, else None."""
    e = expr.replace(" ", "")
    while e.startswith("(") and e.endswith(")"):
        e = e[1:-1]
    v = var.replace(" ", "")
    if e == v:
        return 0
    m = re.fullmatch(re.escape(v) + r"\+(\d+)", e)
    if m:
        return int(m.group(1))
    return None


def emit(run, area, coqmod, rectype, importline, values, order, unrecognised_defaults):
    """Write Gen_<coqmod>.v, consts_<area>.json/.tsv.  values: name -> bytes|int|bool|None"""
    fields = []
    tsv = []
    js = {}
    for k in order:
        v = values.get(k)
        if v is None:
            run.notes.append("translator: could not read %s.%s from the source" % (area, k))
            v = unrecognised_defaults[k]
        if isinstance(v, bool):
            fields.append("%s := %s" % (k, "true" if v else "false"))
            tsv.append("%s\t%d" % (k, 1 if v else 0))
            js[k] = v
        elif isinstance(v, int):
            fields.append("%s := %d%%N" % (k, v))
            tsv.append("%s\t%d" % (k, v))
            js[k] = v
        else:
            fields.append("%s := %s" % (k, coq_bytes(v)))
            tsv.append("%s\t%s" % (k, hexs(v)))
            js[k] = v.hex()
    text = ("(* GENERATED from the current /repo working tree by vlib/translate.py -- do not edit *)\n"
            "%s\nDefinition consts : %s :=\n  {| %s |}.\n" % (importline, rectype, ";\n     ".join(fields)))
    run.write_gen("Gen_%s.v" % coqmod, text)
    return js, tsv


def write_sidecars(run, area, js, tsv):
    json.dump(js, open(os.path.join(run.scratch, "consts_%s.json" % area), "w"), indent=1)
    open(os.path.join(run.scratch, "consts_%s.json" % area).replace(".json", ".tsv"), "w").write("\n".join(tsv) + "\n")


# ------------------------------------------------------------------------------------ expand / cmdline
def _if_else(body, start):
    """body[start:] begins with 'if': returns (cond, then_block, else_block or None, end)"""
    i = body.index("(", start)
    d, j = 0, i
    while True:
        d += body[j] == "("; d -= body[j] == ")"
        if d == 0:
            break
        j += 1
    cond = body[i + 1:j]

    def block(k):
        while body[k].isspace():
            k += 1
        if body[k] == "{":
            d, e = 0, k
            while True:
                d += body[e] == "{"; d -= body[e] == "}"
                if d == 0:
                    return body[k + 1:e], e + 1
                e += 1
        e = body.index(";", k)
        return body[k:e + 1], e + 1
    th, e = block(j + 1)
    m = re.match(r"\s*else\b", body[e:])
    if m:
        el, e2 = block(e + m.end())
        return cond, th, el, e2
    return cond, th, None, e


def file_path_var(fil):
    """fileoutput.c: the name passed to open()/fopen() when it is (an alias of) a char array of PATH_MAX bytes that
    snoopy_message_generateFromFormat fills with that array's own size passed twice; else None.  Names are free."""
    m = re.search(r"snoopy_message_generateFromFormat\s*\(\s*(\w+)\s*,\s*PATH_MAX\s*,\s*PATH_MAX\s*,", fil)
    if not m:
        return None
    y = m.group(1)
    names = {y}
    if not re.search(r"\bchar\s+%s\s*\[\s*PATH_MAX\s*\]" % re.escape(y), fil):
        a = re.search(r"\bchar\s*\*\s*(?:const\s+)?%s\s*=\s*(\w+)\s*;" % re.escape(y), fil)
        if not (a and re.search(r"\bchar\s+%s\s*\[\s*PATH_MAX\s*\]" % re.escape(a.group(1)), fil)):
            return None
        if len(re.findall(r"\b%s\s*=(?!=)" % re.escape(y), fil)) != 1:
            return None
        names.add(a.group(1))
    else:
        for a in re.finditer(r"\bchar\s*\*\s*(?:const\s+)?(\w+)\s*=\s*%s\s*;" % re.escape(y), fil):
            if len(re.findall(r"\b%s\s*=(?!=)" % re.escape(a.group(1)), fil)) == 1:
                names.add(a.group(1))
    o = re.search(r"\bf?open\s*\(\s*(\w+)\s*,", fil)
    return o.group(1) if o and o.group(1) in names else None


def read_cmdline(cb, run, src_all=None):
    """cmdline.c: the text printed when the path is missing too (read from the branch taken when ...->filename is NULL, either polarity of the test),
    and the separator printed before every non-first argument (the only literal other than "%s" printed at a running offset)"""
    unknown = sep = None
    PRN = r"snprintf\s*\(\s*resultBuf\s*,\s*resultBufSize\s*,\s*" + STR + r"\s*(?:,\s*([^;]*?))?\)\s*;"
    for m in re.finditer(r"\bif\s*\(", cb):
        try:
            cond, th, el, _ = _if_else(cb, m.start())
        except ValueError:
            continue
        c = re.sub(r"\s+", "", cond)
        mm = re.fullmatch(r"\(?(?:NULL(==|!=)(\w+->filename)|(\w+->filename)(==|!=)NULL|(!?)(\w+->filename))\)?", c)
        if not mm or el is None:
            continue
        null_first = (mm.group(1) or mm.group(4) or ("==" if mm.group(5) == "!" else "!=")) == "=="
        nb, fb = (th, el) if null_first else (el, th)
        a, b = re.search(r"return\s+" + PRN, nb), re.search(r"return\s+" + PRN, fb)
        if a and b and a.group(2) is None and c_unescape(b.group(1)) == b"%s" and re.fullmatch(r"\w+->filename", (b.group(2) or "").strip()):
            unknown = c_unescape(a.group(1))
    offs = re.findall(r"snprintf\s*\(\s*resultBuf\s*\+\s*\w+\s*,[^;]*?,\s*" + STR + r"\s*(?:,[^;]*)?\)\s*;", cb)
    offs = [c_unescape(x) for x in offs]
    seps = [x for x in offs if x != b"%s"]
    if len(offs) == 2 and len(seps) == 1:
        sep = seps[0]
    if sep is None and src_all is not None:
        # helper form: a file-local static function whose body is the one guarded `off += snprintf(buf + off, size - off, "%s", <own parameter>)`,
        # called once with a literal (the separator) and once with an argv element
        for hm in re.finditer(r"^\s*static\s+[\w\s\*]+?\b(\w+)\s*\(([^;{]*)\)\s*\{", src_all, re.M):
            hname, hpars = hm.group(1), [x.strip().split()[-1].lstrip("*") for x in hm.group(2).split(",") if x.strip()]
            hb = func_body(src_all, hname) or ""
            pr = re.findall(r"snprintf\s*\(\s*(\w+)\s*\+\s*(\w+)\s*,\s*(\w+)\s*-\s*(\w+)\s*,\s*" + STR + r"\s*,\s*(\w+)\s*\)", hb)
            if len(pr) != 1 or len(re.findall(r"\bsnprintf\s*\(", hb)) != 1:
                continue
            b_, o1, sz, o2, fmt, sarg = pr[0]
            if c_unescape(fmt) != b"%s" or o1 != o2 or not all(x in hpars for x in (b_, o1, sz, sarg)):
                continue
            if not re.search(r"if\s*\(\s*%s\s*<\s*%s\s*\)" % (re.escape(o1), re.escape(sz)), hb) or not re.search(r"return\s+%s\s*;" % re.escape(o1), hb):
                continue
            k = hpars.index(sarg)
            calls = re.findall(r"\b%s\s*\(([^;]*?)\)\s*;" % re.escape(hname), cb)
            lits, others = [], 0
            for a in calls:
                args = [x.strip() for x in a.split(",")]
                if len(args) != len(hpars):
                    continue
                mm = re.fullmatch(STR, args[k])
                if mm:
                    lits.append(c_unescape(mm.group(1)))
                else:
                    others += 1
            if len(lits) == 1 and others == 1 and b"%" not in lits[0]:
                sep = lits[0]
    if unknown is None:
        run.notes.append("translator: cmdline.c: the both-missing fallback (if filename is NULL: fixed text, else the path) not recognised")
    if sep is None:
        run.notes.append("translator: cmdline.c: separator / argument snprintf pair at the running offset not recognised")
    return unknown, sep


def tr_expand(run):
    msg = strip_comments(run.src("src/message.c"))
    body = func_body(msg, "snoopy_message_generateFromFormat") or ""
    v = {}
    needles = re.findall(r"strstr\s*\(\s*([A-Za-z_]+)\s*,\s*" + STR + r"\s*\)", body)
    nd = {a: c_unescape(b) for a, b in needles}
    v["tag_open"] = nd.get("fmtPos_cur")
    v["tag_close"] = nd.get("fmtPos_nextFormatTag")
    v["tag_colon"] = nd.get("dataSourceTag")
    # the six error texts, by the condition they are appended under (not by position): closing tag missing / name unknown / data source failed;
    # read through file-local static helpers the statements may have been moved to
    rb_ = reachable_body(msg, "snoopy_message_generateFromFormat")
    marks = [(m.start(), "close") for m in re.finditer(r"(?:NULL\s*==\s*fmtPos_nextFormatTagClose|fmtPos_nextFormatTagClose\s*==\s*NULL|!\s*fmtPos_nextFormatTagClose)", rb_)]
    marks += [(m.start(), "nf") for m in re.finditer(r"!\s*snoopy_datasourceregistry_doesNameExist\s*\(|snoopy_datasourceregistry_doesNameExist\s*\([^)]*\)\s*==\s*SNOOPY_FALSE|SNOOPY_FALSE\s*==\s*snoopy_datasourceregistry_doesNameExist", rb_)]
    marks += [(m.start(), "f") for m in re.finditer(r"SNOOPY_DATASOURCE_FAILED\s*\(|SNOOPY_DATASOURCE_FAILURE\s*==|==\s*SNOOPY_DATASOURCE_FAILURE", rb_)]
    marks.sort()
    groups = {"close": [], "nf": [], "f": []}
    for m in re.finditer(r"snoopy_message_append\s*\(\s*\w+\s*,\s*\w+\s*,\s*" + STR + r"\s*\)", rb_):
        before = [k for (p_, k) in marks if p_ < m.start()]
        if before:
            groups[before[-1]].append(c_unescape(m.group(1)))
    if (len(groups["close"]), len(groups["nf"]), len(groups["f"])) == (1, 2, 3):
        v.update({"e_close": groups["close"][0], "e_nf1": groups["nf"][0], "e_nf2": groups["nf"][1],
                  "e_f1": groups["f"][0], "e_f2": groups["f"][1], "e_f3": groups["f"][2]})
    else:
        run.notes.append("translator: message.c: error texts not recognised (expected 1 under 'closing tag missing', 2 under 'name unknown', 3 under 'data source failed'; found %d/%d/%d)"
                         % (len(groups["close"]), len(groups["nf"]), len(groups["f"])))
    m = re.search(r"dataSourceMsgBufSize\s*=\s*([^;]+);", body)
    v["ds_buf_adj"] = adj(m.group(1), "dataSourceMsgMaxLength") if m else None
    sbody = func_body(strip_comments(run.src("src/util/string.c")), "snoopy_util_string_append") or ""
    m = re.search(r"if\s*\(\s*destStringSizeRemaining\s*(<=|<)\s*appendThisSize\s*\)", sbody)
    v["append_strict"] = (m.group(1) == "<=") if m else None
    act = resolve_locals(strip_comments(run.src("src/action/log-syscall-exec.c")))
    m = re.search(r"snoopy_message_generateFromFormat\s*\(\s*logMessage\s*,\s*([^,]+),\s*([^,]+),\s*CFG->message_format\s*\)", act)
    v["call_log_adj"] = adj(m.group(1), "CFG->log_message_max_length") if m else None
    v["call_ds_adj"] = adj(m.group(2), "CFG->datasource_message_max_length") if m else None
    mm = re.search(r"malloc\s*\(\s*([^;]+)\)\s*;", act)
    if mm and v.get("call_log_adj") is not None and adj(mm.group(1), "CFG->log_message_max_length") != v["call_log_adj"]:
        run.notes.append("translator: log message buffer is not allocated with the size passed to the formatter")
        v["call_log_adj"] = None
    for k, e in [("hardmin_log", "SNOOPY_LOG_MESSAGE_MAX_LENGTH_HARDMIN"), ("hardmax_log", "SNOOPY_LOG_MESSAGE_MAX_LENGTH_HARDMAX"),
                 ("hardmin_ds", "SNOOPY_DATASOURCE_MESSAGE_MAX_LENGTH_HARDMIN"), ("hardmax_ds", "SNOOPY_DATASOURCE_MESSAGE_MAX_LENGTH_HARDMAX"),
                 ("ident_buf", "SNOOPY_SYSLOG_IDENT_FORMAT_BUF_SIZE"), ("path_buf", "PATH_MAX")]:
        v[k] = cpp_value(run, e, includes=("limits.h", "snoopy.h"))
    # the two template call sites must pass their buffer's own size twice
    dev = strip_comments(run.src("src/output/devlogoutput.c"))
    if not re.search(r"char\s+syslogIdent\s*\[\s*SNOOPY_SYSLOG_IDENT_FORMAT_BUF_SIZE\s*\][^;]*;\s*snoopy_message_generateFromFormat\s*\(\s*syslogIdent\s*,\s*SNOOPY_SYSLOG_IDENT_FORMAT_BUF_SIZE\s*,\s*SNOOPY_SYSLOG_IDENT_FORMAT_BUF_SIZE\s*,", dev):
        run.notes.append("translator: devlogoutput.c ident template call not recognised")
        v["ident_buf"] = None
    fil = strip_comments(run.src("src/output/fileoutput.c"))
    if file_path_var(fil) is None:
        run.notes.append("translator: fileoutput.c path template call not recognised")
        v["path_buf"] = None
    order = ["tag_open", "tag_close", "tag_colon", "e_close", "e_nf1", "e_nf2", "e_f1", "e_f2", "e_f3", "ds_buf_adj", "append_strict",
             "call_log_adj", "call_ds_adj", "hardmin_log", "hardmax_log", "hardmin_ds", "hardmax_ds", "ident_buf", "path_buf"]
    bad = {k: b"" for k in order}
    bad.update({"ds_buf_adj": 999, "append_strict": False, "call_log_adj": 999, "call_ds_adj": 999, "hardmin_log": 0, "hardmax_log": 0,
                "hardmin_ds": 0, "hardmax_ds": 0, "ident_buf": 0, "path_buf": 0})
    js, tsv = emit(run, "expand", "Expand", "expand_consts", "From Snoopy Require Import Lib.CStr Expand.Model.", v, order, bad)

    # data-source texts and cmdline constants
    w = {}
    env = strip_comments(run.src("src/datasource/env.c"))
    m = re.search(r"snprintf\s*\(\s*resultBuf\s*,\s*resultBufSize\s*,\s*" + STR + r"\s*\)", env)
    w["env_undefined"] = c_unescape(m.group(1)) if m else None
    fl = strip_comments(run.src("src/datasource/failure.c"))
    m = re.search(r"snprintf\s*\(\s*resultBuf\s*,\s*resultBufSize\s*,\s*" + STR + r"\s*\)", fl)
    w["failure_text"] = c_unescape(m.group(1)) if m else None
    cmd = strip_comments(run.src("src/datasource/cmdline.c"))
    cb = func_body(cmd, "snoopy_datasource_cmdline") or ""
    w["cmdline_unknown"], w["cmdline_sep"] = read_cmdline(cb, run, cmd)
    order2 = ["sep", "unknown"]
    v2 = {"sep": w["cmdline_sep"], "unknown": w["cmdline_unknown"]}
    js2, tsv2 = emit(run, "cmdline", "Cmdline", "cmdline_consts", "From Snoopy Require Import Lib.CStr Datasource.Cmdline.", v2, order2, {"sep": b"", "unknown": b""})
    for k in ("env_undefined", "failure_text"):
        if w[k] is None:
            run.notes.append("translator: could not read %s" % k)
            w[k] = b""
        js[k] = w[k].hex()
        tsv.append("%s\t%s" % (k, hexs(w[k])))
    js["cmdline_sep"] = js2["sep"]
    js["cmdline_unknown"] = js2["unknown"]
    tsv.append("cmdline_sep\t%s" % hexs(bytes.fromhex(js2["sep"])))
    tsv.append("cmdline_unknown\t%s" % hexs(bytes.fromhex(js2["unknown"])))
    write_sidecars(run, "expand", js, tsv)
    run.consts["expand"] = js
    return js
